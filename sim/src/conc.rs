//! The concurrent phase (DESIGN §10.13). Compiled only into the *shadow* build, in which a copy
//! of the repository's sources has had `core::sync::atomic` rewritten to `shuttle::sync::atomic`,
//! so that every atomic operation inside the crate is a scheduling point owned by shuttle. It
//! exists for changed trees that introduce process-wide state; on the unchanged tree there is no
//! atomic to schedule and check.sh does not even build this.
//!
//! One shuttle iteration = two or three simulated caller threads, each executing a short history
//! from the same world/model/invariants as the sequential phase on its *own* objects. Whatever the
//! interleaving of their atomic operations, each caller must see its containers / sets behave as
//! its model says. The schedule of a failing iteration is persisted by shuttle and replays exactly.

use crate::json::J;
use crate::rng::{Rng, GOLDEN};
use crate::sim::{Obs, World};
use shuttle::rand::Rng as _;
use shuttle::scheduler::{PctScheduler, RandomScheduler};
use shuttle::{Config, FailurePersistence, MaxSteps, Runner};
use std::path::{Path, PathBuf};
use std::sync::Mutex;

static LAST_VIOLATION: Mutex<Option<String>> = Mutex::new(None);

fn caller<W: World>(shared_seed: u64, t: usize, focus: [usize; 2]) {
    let mut rng = Rng::from_seed(shared_seed ^ (t as u64 + 1).wrapping_mul(GOLDEN));
    let mut obs = Obs::for_world::<W>();
    let mut ops: Vec<W::Op>;
    let shaped = if shared_seed & 1 == 1 { W::conc_history(&mut rng, shared_seed >> 32) } else { None };
    if let Some(h) = shaped {
        // all callers of this iteration are in the same crate functions with the same sizes, each
        // with its own values, every call made two to four times
        ops = h;
    } else if rng.chance(1, 4) {
        // a stretch of a directed scenario
        let d = W::directed();
        let (_, sc) = &d[rng.usize_below(d.len())];
        let start = if sc.len() > 8 { rng.usize_below(sc.len() - 8) } else { 0 };
        ops = sc[start..(start + 8).min(sc.len())].to_vec();
    } else {
        // a seeded history, thinned to constructors plus the iteration's two focus kinds, so that
        // the callers of one iteration tend to be inside the same crate functions at the same time
        let full = W::generate(&mut rng, &mut obs);
        let builders = W::builder_kinds();
        ops = full.into_iter().filter(|o| builders.contains(&W::op_kind(o)) || focus.contains(&W::op_kind(o))).collect();
        ops.truncate(2 + rng.usize_below(7));
    }
    let out = W::execute(&ops, &mut obs);
    if let Some(v) = out.violation {
        let text = J::obj()
            .with("class", J::str(&v.class))
            .with("step", J::u(v.step as u64))
            .with("detail", J::str(&v.detail))
            .with("caller_thread", J::u(t as u64))
            .with("caller_history", J::Arr(ops.iter().map(|o| W::op_to_json(o)).collect()))
            .compact();
        *LAST_VIOLATION.lock().unwrap() = Some(text);
        panic!("CONC-VIOLATION class={} caller={} : {}", v.class, t, v.detail);
    }
}

pub fn scenario<W: World + 'static>()
where
    W::Op: 'static,
{
    let mut srng = shuttle::rand::thread_rng();
    let shared: u64 = srng.gen();
    let nthreads = 2 + (shared % 2) as usize;
    let nk = W::op_kinds().len();
    let focus = [(shared >> 8) as usize % nk, (shared >> 20) as usize % nk];
    let handles: Vec<_> = (0..nthreads).map(|t| shuttle::thread::spawn(move || caller::<W>(shared, t, focus))).collect();
    for h in handles {
        h.join().unwrap();
    }
}

fn config(dir: &Path, max_secs: u64) -> Config {
    let mut c = Config::new();
    c.failure_persistence = FailurePersistence::File(Some(dir.to_path_buf()));
    // a caller spinning on a flag without yielding can monopolise a schedule: give such an
    // iteration up after a bounded number of steps, and the lane after a bounded time
    c.max_steps = MaxSteps::ContinueAfter(20_000);
    c.max_time = Some(std::time::Duration::from_secs(max_secs));
    c.silence_warnings = true;
    c
}

/// One lane: `iterations` schedules from `seed`, in this process. Returns a JSON report.
pub fn run_lane<W: World + 'static>(seed: u64, lane: u64, iterations: usize, dir: &Path, max_secs: u64) -> J
where
    W::Op: 'static,
{
    let _ = std::fs::create_dir_all(dir);
    let lane_seed = seed ^ (lane + 1).wrapping_mul(0xD1B5_4A32_D192_ED03);
    *LAST_VIOLATION.lock().unwrap() = None;
    crate::sim::clear_last_panic();
    let use_pct = lane % 4 == 3;
    let cfg = config(dir, max_secs);
    let r = std::panic::catch_unwind(std::panic::AssertUnwindSafe(move || {
        if use_pct {
            Runner::new(PctScheduler::new_from_seed(lane_seed, 3, iterations), cfg).run(|| scenario::<W>())
        } else {
            Runner::new(RandomScheduler::new_from_seed(lane_seed, iterations), cfg).run(|| scenario::<W>())
        }
    }));
    let mut j = J::obj().with("lane", J::u(lane)).with("lane_seed", J::hex64(lane_seed)).with("scheduler", J::str(if use_pct { "pct depth 3" } else { "random" })).with("iterations_planned", J::u(iterations as u64));
    match r {
        Ok(n) => {
            j.set("failed", J::Bool(false));
            j.set("iterations_done", J::u(n as u64));
        }
        Err(_) => {
            j.set("failed", J::Bool(true));
            let mut files: Vec<PathBuf> = std::fs::read_dir(dir).map(|rd| rd.flatten().map(|e| e.path()).filter(|p| p.is_file()).collect()).unwrap_or_default();
            files.sort();
            j.set("schedule_file", files.last().map(|p| J::Str(p.display().to_string())).unwrap_or(J::Null));
            let v = LAST_VIOLATION.lock().unwrap().clone();
            let vj = match v.and_then(|t| crate::json::parse(&t).ok()) {
                Some(vj) => vj,
                None => {
                    // no model mismatch was recorded: a panic. In the crate's own sources (calls the
                    // property does not judge are swallowed where they are made) it counts like in the
                    // sequential phase; shuttle's own (deadlock, step limit) and the harness's do not.
                    let msg = crate::sim::last_panic_anywhere();
                    let loc = msg.rsplit(" at ").next().unwrap_or("").to_string();
                    if loc.starts_with('/') && !loc.contains("/.cargo/") && !loc.contains("/registry/") && !loc.contains("/rustc/") && !loc.contains("/library/") && !loc.contains("shuttle") {
                        J::obj().with("class", J::str("panic/concurrent/-")).with("step", J::u(0)).with("detail", J::Str(format!("crate code panicked under a concurrent schedule: {}", msg)))
                    } else {
                        J::Null
                    }
                }
            };
            j.set("violation", vj);
        }
    }
    j
}

/// Replay one persisted schedule in this (fresh) process. Exit code 1 if it fails again.
pub fn replay_schedule<W: World + 'static>(file: &Path) -> (i32, Option<J>)
where
    W::Op: 'static,
{
    *LAST_VIOLATION.lock().unwrap() = None;
    let f = file.to_path_buf();
    let r = std::panic::catch_unwind(std::panic::AssertUnwindSafe(move || shuttle::replay_from_file(|| scenario::<W>(), f)));
    match r {
        Ok(()) => (0, None),
        Err(_) => {
            // only a recorded model mismatch is a reproduction; a schedule that does not fit the
            // current tree makes shuttle panic too, and that is "no violation"
            let v = LAST_VIOLATION.lock().unwrap().clone().and_then(|t| crate::json::parse(&t).ok());
            (if v.is_some() { 1 } else { 0 }, v)
        }
    }
}
