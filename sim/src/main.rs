//! ckc-sim — deterministic (fault-free) simulation harness for ckc-rs,
//! properties C15 and C19. See /verif/DESIGN.md.

mod allocprobe;
mod cardsref;
#[cfg(feature = "conc")]
mod conc;
mod driver;
mod json;
mod rng;
mod sim;
mod world_c15;
mod world_c19;

use driver::{read_json, replay, run_property, Report, RunCfg};
use json::J;
use sim::World;
use std::path::{Path, PathBuf};
use std::time::Instant;

#[global_allocator]
static ALLOC: allocprobe::Counting = allocprobe::Counting;

pub const DEFAULT_SEED: u64 = 20261002;

/// A logger that accepts every record and throws it away. Installing it makes the crate's
/// `log::…!` macro arguments and `log_enabled!` branches execute (a configuration users have).
struct Discard;
impl log::Log for Discard {
    fn enabled(&self, _: &log::Metadata) -> bool {
        true
    }
    fn log(&self, record: &log::Record) {
        std::hint::black_box(record.args());
    }
    fn flush(&self) {}
}
static DISCARD: Discard = Discard;

fn logging_on() {
    let _ = log::set_logger(&DISCARD);
    log::set_max_level(log::LevelFilter::Trace);
}

struct Args {
    pos: Vec<String>,
    kv: Vec<(String, String)>,
    flags: Vec<String>,
}

impl Args {
    fn parse(v: &[String]) -> Args {
        let mut a = Args { pos: vec![], kv: vec![], flags: vec![] };
        let mut i = 0;
        while i < v.len() {
            if let Some(k) = v[i].strip_prefix("--") {
                if i + 1 < v.len() && !v[i + 1].starts_with("--") {
                    a.kv.push((k.to_string(), v[i + 1].clone()));
                    i += 2;
                } else {
                    a.flags.push(k.to_string());
                    i += 1;
                }
            } else {
                a.pos.push(v[i].clone());
                i += 1;
            }
        }
        a
    }
    fn get(&self, k: &str) -> Option<&str> {
        self.kv.iter().find(|(kk, _)| kk == k).map(|(_, v)| v.as_str())
    }
    fn flag(&self, k: &str) -> bool {
        self.flags.iter().any(|f| f == k)
    }
    fn u64(&self, k: &str) -> Option<u64> {
        self.get(k).and_then(|s| s.replace('_', "").parse().ok())
    }
}

fn env_u64(k: &str) -> Option<u64> {
    std::env::var(k).ok().and_then(|s| s.trim().replace('_', "").parse().ok())
}

fn seed_from_env() -> u64 {
    match std::env::var("VERIF_SEED") {
        Ok(s) if !s.trim().is_empty() => match s.trim().parse::<u64>() {
            Ok(x) => x,
            Err(_) => {
                // any string is accepted as a seed: hash it
                let mut h = rng::FNV_OFFSET;
                for b in s.bytes() {
                    h = rng::fold(h, b as u64);
                }
                h >> 1
            }
        },
        _ => DEFAULT_SEED,
    }
}

fn workers_default() -> usize {
    env_u64("CKC_SIM_WORKERS").map(|x| x as usize).unwrap_or_else(|| std::thread::available_parallelism().map(|n| n.get()).unwrap_or(4))
}

fn dispatch_run(prop: &str, cfg: &RunCfg) -> Option<Report> {
    match prop {
        "C15" => Some(run_property::<world_c15::C15>(cfg)),
        "C19" => Some(run_property::<world_c19::C19>(cfg)),
        _ => None,
    }
}

fn describe(prop: &str) -> (J, &'static str, &'static str) {
    match prop {
        "C15" => (world_c15::C15::describe(), world_c15::C15::nontrivial_rule(), world_c15::C15::cell_rule()),
        _ => (world_c19::C19::describe(), world_c19::C19::nontrivial_rule(), world_c19::C19::cell_rule()),
    }
}

fn usage() -> i32 {
    eprintln!("usage: ckc-sim run --prop <C15|C19> --runs N [--seed S] [--workers W] [--profile NAME] [--root DIR] [--out FILE] [--dump-digests FILE]");
    eprintln!("       ckc-sim check --prop <C15|C19> --tier <quick|thorough> --root DIR --other-bin PATH");
    eprintln!("       ckc-sim replay <file> [--machine]");
    eprintln!("       ckc-sim probes --prop <C15|C19>");
    2
}

fn main() {
    let argv: Vec<String> = std::env::args().skip(1).collect();
    if argv.is_empty() {
        std::process::exit(usage());
    }
    let args = Args::parse(&argv[1..]);
    sim::install_quiet_panic_hook();
    sim::set_depth(args.u64("depth").unwrap_or(0) as u8);
    let odd_lane_logging = args.get("log-on-if-odd-lane").is_some() && args.u64("lane").unwrap_or(0) % 2 == 1;
    if args.flag("log-on") || args.get("log-on").is_some() || odd_lane_logging {
        logging_on();
        sim::set_log_on(true);
    }
    let code = match argv[0].as_str() {
        "run" => cmd_run(&args),
        "check" => cmd_check(&args),
        "replay" => cmd_replay(&args),
        "lane" => cmd_lane(&args),
        #[cfg(feature = "conc")]
        "conc" => cmd_conc(&args),
        #[cfg(feature = "conc")]
        "conc-lane" => cmd_conc_lane(&args),
        #[cfg(feature = "conc")]
        "conc-replay" => cmd_conc_replay(&args),
        "context-replay" => cmd_context_replay(&args),
        "selftest" => {
            let seed = seed_from_env();
            let r1 = driver::selftest::<world_c15::C15>(seed, 5_000);
            let r2 = driver::selftest::<world_c19::C19>(seed, 5_000);
            match (r1, r2) {
                (Ok(a), Ok(b)) => {
                    println!("selftest: {} + {} histories survive a JSON round trip with identical digests", a, b);
                    0
                }
                (a, b) => {
                    for e in [a.err(), b.err()].into_iter().flatten() {
                        eprintln!("HARNESS-ERROR: selftest: {}", e);
                    }
                    2
                }
            }
        }
        "probes" => {
            let names = match args.get("prop") {
                Some("C15") => world_c15::C15::probe_names(),
                Some("C19") => world_c19::C19::probe_names(),
                _ => std::process::exit(usage()),
            };
            for n in names {
                println!("{}", n);
            }
            0
        }
        _ => usage(),
    };
    std::process::exit(code);
}

fn cfg_from(args: &Args, profile_default: &str) -> RunCfg {
    RunCfg {
        root: PathBuf::from(args.get("root").unwrap_or("/verif")),
        profile: args.get("profile").unwrap_or(profile_default).to_string(),
        seed: args.u64("seed").unwrap_or_else(seed_from_env),
        runs: args.u64("runs").unwrap_or(100_000),
        workers: args.u64("workers").map(|x| x as usize).unwrap_or_else(workers_default),
        values_runs: args.u64("values-runs").unwrap_or(250_000),
        dump_digests: args.get("dump-digests").map(PathBuf::from),
        max_reported: 6,
    }
}

fn cmd_run(args: &Args) -> i32 {
    let prop = match args.get("prop") {
        Some(p) => p.to_string(),
        None => return usage(),
    };
    let cfg = cfg_from(args, "unnamed");
    let rep = match dispatch_run(&prop, &cfg) {
        Some(r) => r,
        None => return usage(),
    };
    if let Some(lines) = rep.json.get("lines").and_then(|x| x.as_arr()) {
        for l in lines {
            println!("{}", l.as_str().unwrap_or(""));
        }
    }
    if let Some(errs) = rep.json.get("harness_errors").and_then(|x| x.as_arr()) {
        for e in errs {
            eprintln!("HARNESS-ERROR: {}", e.as_str().unwrap_or(""));
        }
    }
    match args.get("out") {
        Some(out) => {
            if let Err(e) = std::fs::write(out, rep.json.pretty()) {
                eprintln!("HARNESS-ERROR: cannot write {}: {}", out, e);
                return 2;
            }
        }
        None => {
            if !args.flag("quiet") {
                let mut brief = rep.json.clone();
                brief.set("samples", J::str("(omitted; use --out)"));
                println!("{}", brief.pretty());
            }
        }
    }
    rep.exit
}

fn cmd_lane(args: &Args) -> i32 {
    let (prop, out) = match (args.get("prop"), args.get("out")) {
        (Some(p), Some(o)) => (p.to_string(), PathBuf::from(o)),
        _ => return usage(),
    };
    let cfg = sim::LaneCfg {
        base_seed: args.u64("seed").unwrap_or(DEFAULT_SEED),
        runs: args.u64("runs").unwrap_or(0),
        values_runs: args.u64("values-runs").unwrap_or(0),
        keep_run_digests: args.flag("keep-run-digests"),
        lane: args.u64("lane").unwrap_or(0),
        lanes: args.u64("lanes").unwrap_or(sim::LANES).max(1),
    };
    let chunks = match prop.as_str() {
        "C15" => sim::run_lane::<world_c15::C15>(&cfg),
        "C19" => sim::run_lane::<world_c19::C19>(&cfg),
        _ => return usage(),
    };
    match sim::write_lane(&out, &chunks) {
        Ok(()) => 0,
        Err(e) => {
            eprintln!("HARNESS-ERROR: {}", e);
            2
        }
    }
}

fn context_replay<W: World>(kind: &str, seed: u64, lanes: u64, from: u64, to: u64, machine: bool, path: Option<&Path>, expected: Option<&J>) -> i32 {
    let (out, trace, _ops) = driver::run_context::<W>(kind, seed, lanes, from, to, !machine);
    if !machine {
        println!("re-creating the context in this fresh process: {} {}..={} (lanes {}), property {}", kind, from, to, lanes, W::id());
        for l in &trace {
            println!("{}", l);
        }
    }
    match out.violation {
        Some(v) => {
            println!("REPLAY-RESULT class={} step={} digest={:#018x}", v.class, v.step, out.digest);
            if !machine {
                let same = expected.map(|e| e.get("class").and_then(|x| x.as_str()) == Some(v.class.as_str()) && e.get("step").and_then(|x| x.as_u64()) == Some(v.step as u64) && e.get("digest").and_then(|x| x.as_u64()) == Some(out.digest)).unwrap_or(false);
                println!("reproduces the recorded violation exactly (class, step, digest): {}", if same { "yes" } else { "no" });
                println!("detail: {}", v.detail);
                if let Some(p) = path {
                    println!("VIOLATION property={} replay={}", W::id(), p.display());
                }
            }
            1
        }
        None => {
            println!("REPLAY-RESULT no-violation digest={:#018x}", out.digest);
            0
        }
    }
}

fn cmd_context_replay(args: &Args) -> i32 {
    let kind = args.get("kind").unwrap_or("seeded").to_string();
    let (seed, lanes, from, to) = (args.u64("seed").unwrap_or(DEFAULT_SEED), args.u64("lanes").unwrap_or(sim::LANES).max(1), args.u64("from").unwrap_or(0), args.u64("to").unwrap_or(0));
    match args.get("prop") {
        Some("C15") => context_replay::<world_c15::C15>(&kind, seed, lanes, from, to, args.flag("machine"), None, None),
        Some("C19") => context_replay::<world_c19::C19>(&kind, seed, lanes, from, to, args.flag("machine"), None, None),
        _ => usage(),
    }
}

fn cmd_replay(args: &Args) -> i32 {
    let path = match args.pos.first() {
        Some(p) => PathBuf::from(p),
        None => return usage(),
    };
    let file = match read_json(&path) {
        Ok(j) => j,
        Err(e) => {
            eprintln!("HARNESS-ERROR: {}", e);
            return 2;
        }
    };
    let machine = args.flag("machine");
    if file.get("log_on").and_then(|x| x.as_bool()) == Some(true) {
        logging_on();
        sim::set_log_on(true);
    }
    if file.get("mode").and_then(|x| x.as_str()) == Some("context") {
        let c = match file.get("context") {
            Some(c) => c,
            None => {
                eprintln!("HARNESS-ERROR: context replay file without a context");
                return 2;
            }
        };
        let g = |k: &str| c.get(k).and_then(|x| x.as_u64()).unwrap_or(0);
        sim::set_depth(g("depth") as u8);
        let kind = c.get("kind").and_then(|x| x.as_str()).unwrap_or("seeded").to_string();
        let seed = file.get("verif_seed").and_then(|x| x.as_u64()).unwrap_or(DEFAULT_SEED);
        return match file.get("property_id").and_then(|x| x.as_str()) {
            Some("C15") => context_replay::<world_c15::C15>(&kind, seed, g("lanes").max(1), g("from"), g("to"), machine, Some(&path), file.get("expected")),
            Some("C19") => context_replay::<world_c19::C19>(&kind, seed, g("lanes").max(1), g("from"), g("to"), machine, Some(&path), file.get("expected")),
            _ => 2,
        };
    }
    match file.get("property_id").and_then(|x| x.as_str()) {
        Some("C15") => replay::<world_c15::C15>(&file, &path, machine),
        Some("C19") => replay::<world_c19::C19>(&file, &path, machine),
        other => {
            eprintln!("HARNESS-ERROR: replay file names unknown property {:?}", other);
            2
        }
    }
}

fn tier_runs(tier: &str) -> u64 {
    if let Some(n) = env_u64("CKC_SIM_RUNS") {
        return n;
    }
    match tier {
        "thorough" => 40_000_000,
        _ => 2_000_000,
    }
}

fn spawn_run(bin: &Path, prop: &str, root: &Path, profile: &str, seed: u64, runs: u64, workers: usize, out: &Path, digests: Option<&Path>) -> Result<(i32, J, String), String> {
    let _ = std::fs::remove_file(out);
    let mut cmd = sim::child_command(bin);
    cmd.arg("run").arg("--prop").arg(prop).arg("--root").arg(root).arg("--profile").arg(profile).arg("--seed").arg(seed.to_string()).arg("--runs").arg(runs.to_string()).arg("--workers").arg(workers.to_string()).arg("--depth").arg(sim::depth().to_string()).arg("--out").arg(out);
    if profile == "simchk" {
        // the second profile also runs with a logger installed at Trace level
        cmd.arg("--log-on").arg("1");
    }
    if let Some(d) = digests {
        cmd.arg("--dump-digests").arg(d);
    }
    let o = cmd.output().map_err(|e| format!("cannot run {}: {}", bin.display(), e))?;
    let code = o.status.code().unwrap_or(2);
    let stdout = String::from_utf8_lossy(&o.stdout).to_string();
    let stderr = String::from_utf8_lossy(&o.stderr).to_string();
    let j = match read_json(out) {
        Ok(j) => j,
        Err(e) => return Err(format!("{} run exited {} without a readable report ({}): {}", bin.display(), code, e, stderr.trim())),
    };
    Ok((code, j, stdout))
}

fn cmd_check(args: &Args) -> i32 {
    let t0 = Instant::now();
    let prop = match args.get("prop") {
        Some(p @ ("C15" | "C19")) => p.to_string(),
        _ => return usage(),
    };
    let tier = args.get("tier").unwrap_or("quick").to_string();
    if tier != "quick" && tier != "thorough" {
        return usage();
    }
    let root = PathBuf::from(args.get("root").unwrap_or("/verif"));
    let other_bin = match args.get("other-bin") {
        Some(p) => PathBuf::from(p),
        None => return usage(),
    };
    let scratch = PathBuf::from(args.get("scratch").map(|s| s.to_string()).unwrap_or_else(|| root.join("sim/target/run").display().to_string()));
    if let Err(e) = std::fs::create_dir_all(&scratch) {
        eprintln!("HARNESS-ERROR: cannot create {}: {}", scratch.display(), e);
        return 2;
    }
    let seed = seed_from_env();
    let runs = tier_runs(&tier);
    sim::set_depth(if tier == "thorough" { 1 } else { 0 });
    let workers = workers_default();
    println!("ckc-sim check property={} tier={} VERIF_SEED={} runs_per_profile={} workers={}", prop, tier, seed, runs, workers);

    // informational: allocations inside crate calls (single thread, before any worker exists)
    // (a tree on which these calls panic is reported by the simulation proper, not from here)
    let (alloc_calls, allocs) = std::panic::catch_unwind(|| allocprobe::measure(seed, 10_000)).unwrap_or((0, 0));

    let mut harness_errors: Vec<String> = Vec::new();
    let mut exit = 0;

    // profile 1: this binary (simfast), as a fresh process of its own
    let out1 = scratch.join(format!("{}-{}-simfast-{}.json", prop, tier, std::process::id()));
    let me = std::env::current_exe().unwrap_or_else(|_| PathBuf::from("ckc-sim"));
    let primary = match spawn_run(&me, &prop, &root, "simfast", seed, runs, workers, &out1, None) {
        Ok((code, j, _)) => Report { json: j, exit: code },
        Err(e) => {
            eprintln!("HARNESS-ERROR: {}", e);
            return 2;
        }
    };
    for l in primary.json.get("lines").and_then(|x| x.as_arr()).unwrap_or(&[]) {
        println!("{}", l.as_str().unwrap_or(""));
    }
    for e in primary.json.get("harness_errors").and_then(|x| x.as_arr()).unwrap_or(&[]) {
        harness_errors.push(format!("simfast: {}", e.as_str().unwrap_or("")));
    }
    exit = exit.max(primary.exit);

    // profile 2: the overflow-checked build, same seeds, separate process
    let out2 = scratch.join(format!("{}-{}-simchk-{}.json", prop, tier, std::process::id()));
    let secondary = match spawn_run(&other_bin, &prop, &root, "simchk", seed, runs, workers, &out2, None) {
        Ok((code, j, stdout)) => {
            // a class already reported by the first profile is not printed twice
            let seen: Vec<String> = primary.json.get("violations").and_then(|x| x.as_arr()).unwrap_or(&[]).iter().filter_map(|v| v.get("class").and_then(|c| c.as_str()).map(|s| s.to_string())).collect();
            let mut skip_next_detail = false;
            for l in stdout.lines() {
                if l.starts_with("VIOLATION ") {
                    // find class of this replay in j
                    let path = l.split("replay=").nth(1).unwrap_or("").trim();
                    let class = j.get("violations").and_then(|x| x.as_arr()).unwrap_or(&[]).iter().find(|v| v.get("replay").and_then(|r| r.as_str()) == Some(path)).and_then(|v| v.get("class")).and_then(|c| c.as_str()).unwrap_or("").to_string();
                    if seen.contains(&class) {
                        println!("  (also under profile simchk: class={} replay={})", class, path);
                        skip_next_detail = true;
                        continue;
                    }
                    println!("{}", l);
                    skip_next_detail = false;
                } else if l.starts_with("KNOWN-FINDING") {
                    if !primary.json.get("lines").and_then(|x| x.as_arr()).unwrap_or(&[]).iter().any(|p| p.as_str() == Some(l)) {
                        println!("{}", l);
                    }
                } else if l.starts_with("  class=") {
                    if !skip_next_detail {
                        println!("{}", l);
                    }
                    skip_next_detail = false;
                }
            }
            exit = exit.max(code);
            Some(j)
        }
        Err(e) => {
            harness_errors.push(e);
            None
        }
    };

    // thorough tier: a third configuration (built with -C target-cpu=native) runs the quick tier's worth of seeds
    let mut third: Option<J> = None;
    if let Some(tb) = args.get("third-bin") {
        let out3 = scratch.join(format!("{}-{}-native-{}.json", prop, tier, std::process::id()));
        let n3 = runs.min(4_000_000);
        match spawn_run(Path::new(tb), &prop, &root, "native", seed, n3, workers, &out3, None) {
            Ok((code, j, stdout)) => {
                for l in stdout.lines() {
                    if l.starts_with("VIOLATION ") || l.starts_with("  class=") || l.starts_with("KNOWN-FINDING") {
                        println!("{}", l);
                    }
                }
                for e in j.get("harness_errors").and_then(|x| x.as_arr()).unwrap_or(&[]) {
                    harness_errors.push(format!("native: {}", e.as_str().unwrap_or("")));
                }
                exit = exit.max(code);
                third = Some(j);
            }
            Err(e) => harness_errors.push(e),
        }
        let _ = std::fs::remove_file(&out3);
    }

    // same seeds, same observations: the two batch digests must agree when neither profile failed
    let d1 = primary.json.get("seeded_digest").and_then(|x| x.as_u64());
    let dd1 = primary.json.get("directed_digest").and_then(|x| x.as_u64());
    let mut digests_match = J::Null;
    if let Some(s) = &secondary {
        let d2 = s.get("seeded_digest").and_then(|x| x.as_u64());
        let dd2 = s.get("directed_digest").and_then(|x| x.as_u64());
        let same = d1 == d2 && dd1 == dd2;
        digests_match = J::Bool(same);
        let f1 = primary.json.get("failing_runs").and_then(|x| x.as_u64()).unwrap_or(0);
        let f2 = s.get("failing_runs").and_then(|x| x.as_u64()).unwrap_or(0);
        if !same && f1 == 0 && f2 == 0 {
            harness_errors.push(format!("batch digests differ between profiles with no violation in either: simfast {:?}/{:?} simchk {:?}/{:?}", d1, dd1, d2, dd2));
        }
    }

    // thorough: a determinism sample in fresh processes at other worker counts
    let mut determinism = J::Null;
    if tier == "thorough" && exit == 0 {
        let n = 300_000u64;
        let mut files: Vec<PathBuf> = Vec::new();
        let me = std::env::current_exe().unwrap_or_else(|_| PathBuf::from("ckc-sim"));
        let plans: [(&Path, &str, usize); 4] = [(&me, "simfast", 1), (&me, "simfast", 5), (&other_bin, "simchk", 16), (&other_bin, "simchk", 3)];
        for (k, (bin, prof, w)) in plans.iter().enumerate() {
            let out = scratch.join(format!("{}-det-{}-{}.json", prop, k, std::process::id()));
            let dig = scratch.join(format!("{}-det-{}-{}.bin", prop, k, std::process::id()));
            match spawn_run(bin, &prop, &root, prof, seed ^ 0x5EED, n, *w, &out, Some(&dig)) {
                Ok(_) => {
                    let _ = std::fs::remove_file(&out);
                    files.push(dig)
                }
                Err(e) => harness_errors.push(format!("determinism sample: {}", e)),
            }
        }
        let mut all_same = files.len() == plans.len();
        if let Some(first) = files.first() {
            let a = std::fs::read(first).unwrap_or_default();
            if a.len() as u64 != n * 8 {
                all_same = false;
            }
            for f in &files[1..] {
                if std::fs::read(f).unwrap_or_default() != a {
                    all_same = false;
                }
            }
        }
        for f in &files {
            let _ = std::fs::remove_file(f);
        }
        if !all_same {
            harness_errors.push("determinism sample: per-run digests differ between worker counts / profiles".into());
        }
        determinism = J::obj().with("runs_compared_position_by_position", J::u(n)).with("processes", J::str("simfast x1 worker, simfast x5, simchk x16, simchk x3")).with("identical", J::Bool(all_same));
    }

    // concurrent phase (only present when check.sh found atomics in the tree and built the shadow)
    let conc_report: J = match args.get("conc-report") {
        Some(pth) => match read_json(Path::new(pth)) {
            Ok(j) => {
                for l in j.get("lines").and_then(|x| x.as_arr()).unwrap_or(&[]) {
                    println!("{}", l.as_str().unwrap_or(""));
                }
                for n in j.get("notes").and_then(|x| x.as_arr()).unwrap_or(&[]) {
                    println!("NOTE: concurrent phase: {}", n.as_str().unwrap_or(""));
                }
                if j.get("violations").and_then(|x| x.as_u64()).unwrap_or(0) > 0 {
                    exit = exit.max(1);
                }
                j
            }
            Err(e) => J::obj().with("applicable", J::Bool(true)).with("error", J::Str(e)),
        },
        None if args.get("conc-skipped").is_some() => J::obj().with("applicable", J::Bool(true)).with("ran", J::Bool(false)).with("reason", J::Str(format!("the tree mentions atomics, but the concurrent phase could not be run on it: {}", args.get("conc-skipped").unwrap_or("")))),
        None => J::obj().with("applicable", J::Bool(false)).with("reason", J::str("the source of the tree does not mention atomics anywhere: there is no shared state whose accesses a thread scheduler could interleave (DESIGN 1); on a tree that has some, check.sh rebuilds the crate with core::sync::atomic replaced by shuttle::sync::atomic and explores interleavings of two or three simulated callers (DESIGN 10.13)")),
    };

    if !harness_errors.is_empty() {
        exit = 2;
    }

    // ---- evidence
    let g = |j: &J, k: &str| j.get(k).and_then(|x| x.as_u64()).unwrap_or(0);
    let p = &primary.json;
    let mut evaluations = g(p, "seeded_runs") + g(p, "directed_runs");
    let mut steps_total = g(p, "seeded_steps") + g(p, "directed_steps");
    let mut inv = g(p, "invariant_evaluations");
    let mut profiles = vec![J::obj()
        .with("profile", J::str("simfast: opt-level 3, overflow checks off, debug assertions off, no logger installed"))
        .with("seeded_runs", J::u(g(p, "seeded_runs")))
        .with("directed_runs", J::u(g(p, "directed_runs")))
        .with("seeded_digest", p.get("seeded_digest").cloned().unwrap_or(J::Null))
        .with("directed_digest", p.get("directed_digest").cloned().unwrap_or(J::Null))
        .with("wall_s", p.get("wall_s").cloned().unwrap_or(J::Null))];
    if let Some(s) = &secondary {
        evaluations += g(s, "seeded_runs") + g(s, "directed_runs");
        steps_total += g(s, "seeded_steps") + g(s, "directed_steps");
        inv += g(s, "invariant_evaluations");
        profiles.push(
            J::obj()
                .with("profile", J::str("simchk: opt-level 2, overflow checks on, debug assertions on, a discard-everything logger installed at Trace level"))
                .with("seeded_runs", J::u(g(s, "seeded_runs")))
                .with("directed_runs", J::u(g(s, "directed_runs")))
                .with("seeded_digest", s.get("seeded_digest").cloned().unwrap_or(J::Null))
                .with("directed_digest", s.get("directed_digest").cloned().unwrap_or(J::Null))
                .with("wall_s", s.get("wall_s").cloned().unwrap_or(J::Null)),
        );
    }
    if let Some(t) = &third {
        evaluations += g(t, "seeded_runs") + g(t, "directed_runs");
        steps_total += g(t, "seeded_steps") + g(t, "directed_steps");
        inv += g(t, "invariant_evaluations");
        profiles.push(
            J::obj()
                .with("profile", J::str("native: the simfast profile built with RUSTFLAGS=-C target-cpu=native (code under cfg(target_feature) is live); thorough tier only"))
                .with("seeded_runs", J::u(g(t, "seeded_runs")))
                .with("directed_runs", J::u(g(t, "directed_runs")))
                .with("seeded_digest", t.get("seeded_digest").cloned().unwrap_or(J::Null))
                .with("directed_digest", t.get("directed_digest").cloned().unwrap_or(J::Null))
                .with("wall_s", t.get("wall_s").cloned().unwrap_or(J::Null)),
        );
    }
    let wall = t0.elapsed().as_secs_f64();
    let (desc, rule, cell_rule) = describe(&prop);
    let mut violations_total = g(p, "new_violations");
    if let Some(s) = &secondary {
        violations_total = violations_total.max(g(s, "new_violations"));
    }
    violations_total += conc_report.get("violations").and_then(|x| x.as_u64()).unwrap_or(0);
    let mut all_viol: Vec<J> = p.get("violations").and_then(|x| x.as_arr()).unwrap_or(&[]).to_vec();
    if let Some(s) = &secondary {
        for v in s.get("violations").and_then(|x| x.as_arr()).unwrap_or(&[]) {
            all_viol.push(v.clone().with("profile", J::str("simchk")));
        }
    }
    let fault_census = J::obj()
        .with("thread_or_task_interleaving", J::str(if args.get("conc-report").is_some() { "this tree has process-wide atomics: interleavings of simulated callers were explored with shuttle (see concurrent_phase); the unchanged crate has none to schedule" } else { "none to schedule: no std, no sync, no async; mutation needs &mut self (exclusive)" }))
        .with("clock_or_timer", J::str("none: no time type is imported"))
        .with("network_delivery", J::str("none: no transport"))
        .with("disk_or_stream_io", J::str("none: parsers take a complete &str; nothing persists"))
        .with("allocation_failure", J::str("none: no allocation inside crate calls (measured below)"))
        .with("crash_restart", J::str("none: no durable state; no mutating call has a failure path"))
        .with("randomness", J::str("none: no RNG, no hash-ordered collection"));
    let coverage = J::obj()
        .with("evaluations", J::u(evaluations))
        .with("distinct_nontrivial", J::u(g(p, "distinct_nontrivial")))
        .with("rule", J::Str(format!("histories are drawn by a swarm-configured generator from xoshiro256** seeded with splitmix64(VERIF_SEED ^ (run+1)*0x9E3779B97F4A7C15), preceded by a fixed list of directed scenarios; both build profiles run the same seeds. {}. distinct_nontrivial is counted over the seeded runs of one profile (the other profile replays the same histories) by sorting and de-duplicating the per-run digests.", rule)))
        .with("samples", p.get("samples").cloned().unwrap_or(J::Arr(vec![])))
        .with("exhaustive", J::Bool(false))
        .with("steps_total", J::u(steps_total))
        .with("invariant_evaluations", J::u(inv))
        .with("nontrivial_seeded_runs_one_profile", J::u(g(p, "nontrivial_runs")))
        .with("runs_per_hour", J::u(if wall > 0.0 { (evaluations as f64 / wall * 3600.0) as u64 } else { 0 }))
        .with("exploration_depth", J::Str(if sim::depth() >= 1 { "thorough: every second seeded run is drawn from the deep distribution (one in 8 a long-lived history of 200-1000 operations on up to four objects; texts of up to 300 tokens)".into() } else { "quick: standard swarm (one run in 256 is a long-lived history of 200-600 operations)".into() })).with("seeds", J::obj().with("base", J::u(seed)).with("derivation", J::str("seed_i = splitmix64(base ^ (i+1)*0x9E3779B97F4A7C15); run i uses xoshiro256**(seed_i)")).with("runs_per_profile", J::u(runs)))
        .with("simulated_time", J::str("no clock in the system; logical steps only (steps_total)"))
        .with("faults_injected", J::obj())
        .with("fault_census", fault_census)
        .with("allocations_inside_crate_calls", J::obj().with("crate_calls_about", J::u(alloc_calls)).with("allocations", J::u(allocs)).with("note", J::str("counting global allocator enabled only around calls into ckc-rs; informational, never a violation")))
        .with("distinct_states", J::obj().with("abstract_step_cells_reached", J::u(g(p, "cells_reached"))).with("abstract_step_cells_possible", J::u(g(p, "cells_possible"))).with("abstract_step_cells_possible_is_exact_not_upper_bound", p.get("cells_possible_is_exact").cloned().unwrap_or(J::Null)).with("cell_rule", J::str(cell_rule)).with("distinct_final_world_shapes", J::u(g(p, "distinct_world_shapes"))).with(if prop == "C15" { "distinct_set_values_held_by_a_register" } else { "distinct_set_values_not_applicable" }, if prop == "C15" { J::u(g(p, "distinct_values")) } else { J::Null }).with("distinct_set_values_counted_over_first_runs", if prop == "C15" { J::u(g(p, "values_sampled_runs")) } else { J::Null }))
        .with("op_bigrams_seen", J::u(g(p, "op_bigrams_seen")))
        .with("op_bigrams_possible", J::u(g(p, "op_bigrams_possible")))
        .with("ops_by_kind_after_first", p.get("ops_by_kind_after_first").cloned().unwrap_or(J::Null))
        .with("probes_seeded", p.get("probes_seeded").cloned().unwrap_or(J::Null))
        .with("probes_directed", p.get("probes_directed").cloned().unwrap_or(J::Null))
        .with("probes_at_zero", p.get("probes_at_zero").cloned().unwrap_or(J::Null))
        .with("profiles", J::Arr(profiles))
        .with("profile_digests_match", digests_match)
        .with("determinism_sample", determinism)
        .with("concurrent_phase", conc_report.clone())
        .with("world", desc)
        .with("violations_detail", J::Arr(all_viol))
        .with("known_findings_matched", J::u(g(p, "known_findings_matched")))
        .with("harness_errors", J::Arr(harness_errors.iter().map(|s| J::str(s)).collect()));
    let assumptions: Vec<J> = [
        "the card layout and deck order used to build inputs and judge results are those documented in lib.rs and stated by C10/C14/C15/C18; they are re-derived in the harness (cardsref.rs), not read from the crate",
        "C15 only: whitespace between text tokens means Unicode White_Space (Rust's char::is_whitespace, which the crate's split_whitespace uses); a card token is one that starts with a rank symbol followed by a suit symbol (C12)",
        "Copy assignment of a container is a bitwise copy (language guarantee)",
        "the harness's own bookkeeping (array model / membership model, a few dozen lines of plain loops) is correct; it is exercised by the sensitivity mutants, which must fail for the right reason",
        "sampled, not exhaustive: a clean batch is evidence, not proof",
        "no fault kind of the method applies to the unchanged crate (see fault_census): this is the fault-free half of deterministic simulation, plus schedule exploration when a tree brings atomics (concurrent_phase)",
    ]
    .iter()
    .map(|s| J::str(s))
    .collect();
    let ev = J::obj()
        .with("property_id", J::str(&prop))
        .with("tier", J::str(&tier))
        .with("seed", J::u(seed))
        .with("level", J::str("exploration"))
        .with("coverage", coverage)
        .with("assumptions", J::Arr(assumptions))
        .with("wall_s", J::Float(wall))
        .with("violations", J::u(violations_total));
    let evdir = root.join("evidence");
    let evpath = evdir.join(format!("{}.json", prop));
    if let Err(e) = std::fs::create_dir_all(&evdir).and_then(|_| std::fs::write(&evpath, ev.pretty())) {
        eprintln!("HARNESS-ERROR: cannot write evidence {}: {}", evpath.display(), e);
        exit = 2;
    }
    for e in &harness_errors {
        eprintln!("HARNESS-ERROR: {}", e);
    }
    let _ = std::fs::remove_file(&out1);
    let _ = std::fs::remove_file(&out2);
    println!(
        "ckc-sim check property={} tier={} result={} evaluations={} distinct_nontrivial={} steps={} wall_s={:.1} evidence={}",
        prop,
        tier,
        match exit {
            0 => "held",
            1 => "VIOLATED",
            _ => "harness-error",
        },
        evaluations,
        g(p, "distinct_nontrivial"),
        steps_total,
        wall,
        evpath.display()
    );
    exit
}

// ---------------------------------------------------------------------------
// Concurrent phase (shadow build only; DESIGN 10.13)

#[cfg(feature = "conc")]
fn cmd_conc_lane(args: &Args) -> i32 {
    let (prop, out, dir) = match (args.get("prop"), args.get("out"), args.get("dir")) {
        (Some(p), Some(o), Some(d)) => (p.to_string(), PathBuf::from(o), PathBuf::from(d)),
        _ => return usage(),
    };
    let (seed, lane, iters) = (args.u64("seed").unwrap_or(DEFAULT_SEED), args.u64("lane").unwrap_or(0), args.u64("iterations").unwrap_or(1000) as usize);
    let j = match prop.as_str() {
        "C15" => conc::run_lane::<world_c15::C15>(seed, lane, iters, &dir, args.u64("max-secs").unwrap_or(60)),
        "C19" => conc::run_lane::<world_c19::C19>(seed, lane, iters, &dir, args.u64("max-secs").unwrap_or(60)),
        _ => return usage(),
    };
    if std::fs::write(&out, j.pretty()).is_err() {
        return 2;
    }
    0
}

#[cfg(feature = "conc")]
fn cmd_conc_replay(args: &Args) -> i32 {
    let (prop, file) = match (args.get("prop"), args.get("schedule")) {
        (Some(p), Some(f)) => (p.to_string(), PathBuf::from(f)),
        _ => return usage(),
    };
    let (code, v) = match prop.as_str() {
        "C15" => conc::replay_schedule::<world_c15::C15>(&file),
        "C19" => conc::replay_schedule::<world_c19::C19>(&file),
        _ => return usage(),
    };
    match v {
        Some(v) => {
            println!("REPLAY-RESULT class={} step={} digest=0x0", v.get("class").and_then(|x| x.as_str()).unwrap_or("?"), v.get("step").and_then(|x| x.as_u64()).unwrap_or(0));
            if !args.flag("machine") {
                println!("{}", v.pretty());
            }
        }
        None => println!("REPLAY-RESULT no-violation digest=0x0"),
    }
    code
}

/// Parent of the concurrent phase: runs the lanes, confirms the first failure in a fresh process,
/// writes a replay file and a report for `check --conc-report`.
#[cfg(feature = "conc")]
fn cmd_conc(args: &Args) -> i32 {
    let (prop, out) = match (args.get("prop"), args.get("out")) {
        (Some(p @ ("C15" | "C19")), Some(o)) => (p.to_string(), PathBuf::from(o)),
        _ => return usage(),
    };
    let root = PathBuf::from(args.get("root").unwrap_or("/verif"));
    let seed = args.u64("seed").unwrap_or_else(seed_from_env);
    let iters = args.u64("iterations").unwrap_or(3000);
    let lanes = args.u64("lanes").unwrap_or(16);
    let workers = workers_default().max(1);
    let t0 = Instant::now();
    let me = std::env::current_exe().unwrap_or_else(|_| PathBuf::from("ckc-sim"));
    let work = root.join("sim/target/conc/run").join(format!("{}-{}", prop, std::process::id()));
    let _ = std::fs::remove_dir_all(&work);
    let _ = std::fs::create_dir_all(&work);
    let mut running: Vec<std::process::Child> = Vec::new();
    for lane in 0..lanes {
        if running.len() >= workers {
            let _ = running.remove(0).wait();
        }
        let alt = args.get("alt-bin").map(PathBuf::from);
        let bin = match &alt {
            Some(a) if (lane / 2) % 2 == 1 && a.exists() => a.clone(),
            _ => me.clone(),
        };
        let mut cmd = sim::child_command(&bin);
        cmd.arg("conc-lane").arg("--log-on-if-odd-lane").arg("1").arg("--prop").arg(&prop).arg("--seed").arg(seed.to_string()).arg("--lane").arg(lane.to_string()).arg("--iterations").arg(iters.to_string()).arg("--max-secs").arg(args.u64("max-secs").unwrap_or(60).to_string()).arg("--dir").arg(work.join(format!("sched-{}", lane))).arg("--out").arg(work.join(format!("lane-{}.json", lane)));
        cmd.stdout(std::process::Stdio::null()).stderr(std::process::Stdio::null());
        if let Ok(c) = cmd.spawn() {
            running.push(c);
        }
    }
    for mut c in running {
        let _ = c.wait();
    }
    let mut done = 0u64;
    let mut lanes_json: Vec<J> = Vec::new();
    let mut first_fail: Option<J> = None;
    let mut notes: Vec<String> = Vec::new();
    let mut lanes_without_verdict = 0u64;
    for lane in 0..lanes {
        match read_json(&work.join(format!("lane-{}.json", lane))) {
            Ok(j) => {
                done += j.get("iterations_done").and_then(|x| x.as_u64()).unwrap_or(0);
                if j.get("failed").and_then(|x| x.as_bool()) == Some(true) && first_fail.is_none() && j.get("violation").map(|v| *v != J::Null).unwrap_or(false) {
                    first_fail = Some(j.clone());
                } else if j.get("failed").and_then(|x| x.as_bool()) == Some(true) && j.get("violation").map(|v| *v == J::Null).unwrap_or(true) {
                    lanes_without_verdict += 1;
                }
                lanes_json.push(j);
            }
            Err(e) => notes.push(format!("lane {} produced no report ({})", lane, e)),
        }
    }
    let mut lines: Vec<String> = Vec::new();
    let mut violations = 0u64;
    let mut vdetail = J::Null;
    if let Some(f) = first_fail {
        let class = f.get("violation").and_then(|v| v.get("class")).and_then(|x| x.as_str()).unwrap_or("?").to_string();
        let sched = f.get("schedule_file").and_then(|x| x.as_str()).map(PathBuf::from);
        let lane = f.get("lane").and_then(|x| x.as_u64()).unwrap_or(0);
        let lane_bin = match args.get("alt-bin").map(PathBuf::from) {
            Some(a) if (lane / 2) % 2 == 1 && a.exists() => a,
            _ => me.clone(),
        };
        let shadow_profile = if lane_bin == me { "release" } else { "concdbg" };
        let replays = root.join("replays");
        let _ = std::fs::create_dir_all(&replays);
        let mut reported = false;
        if let Some(sf) = sched {
            let keep = replays.join(format!("{}-conc-seed{}-lane{}.schedule", prop, seed, lane));
            let _ = std::fs::copy(&sf, &keep);
            // a fresh process must fail the same way from the schedule alone
            let ok = sim::child_command(&lane_bin).arg("conc-replay").arg("--log-on-if-odd-lane").arg("1").arg("--lane").arg(lane.to_string()).arg("--prop").arg(&prop).arg("--schedule").arg(&keep).arg("--machine").output().map(|o| o.status.code() == Some(1) && String::from_utf8_lossy(&o.stdout).contains(&format!("class={} ", class))).unwrap_or(false);
            if ok {
                let file = replays.join(format!("{}-conc-seed{}-lane{}.json", prop, seed, lane));
                let j = J::obj()
                    .with("format", J::str("ckc-sim replay v1"))
                    .with("mode", J::str("shuttle-schedule"))
                    .with("property_id", J::str(&prop))
                    .with("verif_seed", J::u(seed))
                    .with("verif_seed_str", J::Str(seed.to_string()))
                    .with("lane", J::u(lane))
                    .with("shadow_profile", J::str(shadow_profile))
                    .with("schedule_file", J::Str(keep.display().to_string()))
                    .with("scheduler", f.get("scheduler").cloned().unwrap_or(J::Null))
                    .with("what", J::str("two or three simulated caller threads, each running its own short history against the shadow build of the crate in which core::sync::atomic is shuttle::sync::atomic; the schedule file is shuttle's own replayable encoding of which thread ran at every atomic operation"))
                    .with("expected", J::obj().with("class", J::str(&class)))
                    .with("violation", f.get("violation").cloned().unwrap_or(J::Null));
                if std::fs::write(&file, j.pretty()).is_ok() {
                    lines.push(format!("VIOLATION property={} replay={}", prop, file.display()));
                    lines.push(format!("  class={} origin=concurrent phase (shuttle, lane {}) {}", class, lane, f.get("violation").and_then(|v| v.get("detail")).and_then(|x| x.as_str()).unwrap_or("")));
                    violations = 1;
                    vdetail = j;
                    reported = true;
                }
            }
        }
        if !reported {
            // the schedule alone is not enough (state carried over from earlier iterations): the whole lane is the replay
            let again = work.join("again.json");
            let ok = sim::child_command(&lane_bin).arg("conc-lane").arg("--log-on-if-odd-lane").arg("1").arg("--prop").arg(&prop).arg("--seed").arg(seed.to_string()).arg("--lane").arg(lane.to_string()).arg("--iterations").arg(iters.to_string()).arg("--max-secs").arg("100000").arg("--dir").arg(work.join("again-sched")).arg("--out").arg(&again).status().is_ok()
                && read_json(&again).ok().map(|j| j.get("failed").and_then(|x| x.as_bool()) == Some(true) && j.get("violation").and_then(|v| v.get("class")).and_then(|x| x.as_str()) == Some(class.as_str())).unwrap_or(false);
            if ok {
                let file = replays.join(format!("{}-conc-seed{}-lane{}.json", prop, seed, lane));
                let j = J::obj()
                    .with("format", J::str("ckc-sim replay v1"))
                    .with("mode", J::str("shuttle-lane"))
                    .with("property_id", J::str(&prop))
                    .with("verif_seed", J::u(seed))
                    .with("verif_seed_str", J::Str(seed.to_string()))
                    .with("lane", J::u(lane))
                    .with("shadow_profile", J::str(shadow_profile))
                    .with("iterations", J::u(iters))
                    .with("what", J::str("the failing iteration depends on state left by earlier iterations of its lane; the replay re-runs the lane's schedules from its seed in a fresh process"))
                    .with("expected", J::obj().with("class", J::str(&class)))
                    .with("violation", f.get("violation").cloned().unwrap_or(J::Null));
                if std::fs::write(&file, j.pretty()).is_ok() {
                    lines.push(format!("VIOLATION property={} replay={}", prop, file.display()));
                    lines.push(format!("  class={} origin=concurrent phase (shuttle, lane {}, whole-lane replay)", class, lane));
                    violations = 1;
                    vdetail = j;
                }
            } else {
                notes.push(format!("a concurrent-phase failure of class {} did not reproduce in a fresh process; not reported", class));
            }
        }
    }
    let _ = std::fs::remove_dir_all(&work);
    let report = J::obj()
        .with("applicable", J::Bool(true))
        .with("property_id", J::str(&prop))
        .with("seed", J::u(seed))
        .with("lanes", J::u(lanes))
        .with("iterations_per_lane", J::u(iters))
        .with("schedules_explored", J::u(done))
        .with("schedules_explored_note", J::str("completed iterations of lanes that ran to their end; an iteration that reaches the step limit (a caller spinning on a flag) is abandoned by shuttle and still counted"))
        .with("lanes_ended_early_without_a_verdict", J::u(lanes_without_verdict))
        .with("schedulers", J::str("random (3 lanes of 4), PCT depth 3 (1 lane of 4)"))
        .with("lane_configurations", J::str("lane mod 4: 0 release shadow, no logger; 1 release, logger at Trace; 2 shadow with debug assertions and overflow checks, no logger; 3 the same with logger"))
        .with("callers_per_schedule", J::str("2 or 3 simulated threads, each with its own objects, model and invariants"))
        .with("violations", J::u(violations))
        .with("violation", vdetail)
        .with("lines", J::Arr(lines.iter().map(|s| J::str(s)).collect()))
        .with("notes", J::Arr(notes.iter().map(|s| J::str(s)).collect()))
        .with("wall_s", J::Float(t0.elapsed().as_secs_f64()));
    if std::fs::write(&out, report.pretty()).is_err() {
        return 2;
    }
    for l in &lines {
        println!("{}", l);
    }
    if violations > 0 {
        1
    } else {
        0
    }
}
