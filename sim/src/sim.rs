//! The generic half of the simulator: what a world is, how one run is executed
//! (with panics inside crate code turned into violations), how a batch of
//! seeded runs is spread over worker threads without the result depending on
//! the number of workers, and how a failing history is minimised.

use crate::json::J;
use crate::rng::{fold, run_seed, Rng, FNV_OFFSET};
use std::cell::{Cell, RefCell};
use std::collections::BTreeMap;
use std::panic::{catch_unwind, AssertUnwindSafe};
use std::sync::atomic::{AtomicU64, Ordering};

#[derive(Clone, Debug)]
pub struct Violation {
    /// index of the operation at which the invariant failed
    pub step: usize,
    /// `<invariant>/<op kind>/<container size or set constructor>`; the unit of
    /// minimisation and of known-findings matching
    pub class: String,
    pub detail: String,
}

#[derive(Clone, Debug)]
pub struct Outcome {
    pub digest: u64,
    pub steps: u32,
    pub violation: Option<Violation>,
    pub nontrivial: bool,
}

/// Per-chunk observer. Everything in it is either a sum, a bit-or, or a list
/// that is later sorted, so merging chunks in index order gives a result that
/// does not depend on which thread ran which chunk.
pub struct Obs {
    pub probes: Vec<u64>,
    pub bigrams: Vec<u64>,
    pub nkinds: usize,
    pub cells: Vec<u64>,
    pub shapes: Vec<u64>,
    pub values: Vec<u64>,
    pub collect_values: bool,
    pub trace: Option<Vec<String>>,
    pub detail: bool,
    pub inv_checks: u64,
}

impl Obs {
    pub fn new(nprobes: usize, nkinds: usize, cell_bits: usize) -> Obs {
        Obs {
            probes: vec![0; nprobes],
            bigrams: vec![0; nkinds * nkinds],
            nkinds,
            cells: vec![0; (cell_bits + 63) / 64],
            shapes: Vec::new(),
            values: Vec::new(),
            collect_values: false,
            trace: None,
            detail: false,
            inv_checks: 0,
        }
    }

    pub fn for_world<W: World>() -> Obs {
        Obs::new(W::probe_names().len(), W::op_kinds().len(), W::cell_bits())
    }

    #[inline]
    pub fn hit(&mut self, p: usize) {
        self.probes[p] += 1;
    }

    #[inline]
    pub fn cell(&mut self, c: usize) {
        self.cells[c >> 6] |= 1u64 << (c & 63);
    }

    #[inline]
    pub fn bigram(&mut self, a: usize, b: usize) {
        self.bigrams[a * self.nkinds + b] += 1;
    }

    #[inline]
    pub fn tracing(&self) -> bool {
        self.trace.is_some()
    }

    pub fn log(&mut self, s: String) {
        if let Some(t) = self.trace.as_mut() {
            t.push(s);
        }
    }

    pub fn merge(&mut self, o: &Obs) {
        for (a, b) in self.probes.iter_mut().zip(&o.probes) {
            *a += *b;
        }
        for (a, b) in self.bigrams.iter_mut().zip(&o.bigrams) {
            *a += *b;
        }
        for (a, b) in self.cells.iter_mut().zip(&o.cells) {
            *a |= *b;
        }
        self.shapes.extend_from_slice(&o.shapes);
        self.values.extend_from_slice(&o.values);
        self.inv_checks += o.inv_checks;
    }

    pub fn cells_set(&self) -> u64 {
        self.cells.iter().map(|w| w.count_ones() as u64).sum()
    }
}

pub trait World {
    type Op: Clone + PartialEq + Send + Sync;

    fn id() -> &'static str;
    fn op_kinds() -> &'static [&'static str];
    fn probe_names() -> Vec<String>;
    fn cell_bits() -> usize;
    fn cell_rule() -> &'static str;
    /// Number of cells that can occur at all, when known exactly (otherwise `cell_bits` is an upper bound).
    fn cells_reachable() -> Option<u64> {
        None
    }
    fn nontrivial_rule() -> &'static str;

    /// Draw one history. Every choice comes from `rng`; swarm knobs are counted in `obs`.
    fn generate(rng: &mut Rng, obs: &mut Obs) -> Vec<Self::Op>;
    /// Run a history against the real crate and the model. Stops at the first violation.
    fn execute(ops: &[Self::Op], obs: &mut Obs) -> Outcome;
    /// The fixed scripted histories of DESIGN §3.5.
    fn directed() -> Vec<(String, Vec<Self::Op>)>;

    fn op_kind(op: &Self::Op) -> usize;
    fn op_to_json(op: &Self::Op) -> J;
    fn op_from_json(j: &J) -> Result<Self::Op, String>;
    /// Simpler variants of one operation, tried by the minimiser.
    fn simplify(op: &Self::Op) -> Vec<Self::Op>;
    /// Static description for the evidence file.
    fn describe() -> J;
}

// ---------------------------------------------------------------------------
// Panic capture. The executor notes where it is before every call into the
// crate; the hook stores the message; nothing is printed.

thread_local! {
    pub static CUR_STEP: Cell<usize> = const { Cell::new(0) };
    pub static CUR_KIND: Cell<usize> = const { Cell::new(0) };
    pub static CUR_SUB: Cell<&'static str> = const { Cell::new("") };
    static PANIC_MSG: RefCell<String> = const { RefCell::new(String::new()) };
}

#[inline]
pub fn at(step: usize, kind: usize, sub: &'static str) {
    CUR_STEP.with(|c| c.set(step));
    CUR_KIND.with(|c| c.set(kind));
    CUR_SUB.with(|c| c.set(sub));
}

pub fn install_quiet_panic_hook() {
    std::panic::set_hook(Box::new(|info| {
        let msg = if let Some(s) = info.payload().downcast_ref::<&str>() {
            (*s).to_string()
        } else if let Some(s) = info.payload().downcast_ref::<String>() {
            s.clone()
        } else {
            "<non-string panic payload>".to_string()
        };
        let loc = info.location().map(|l| format!(" at {}:{}", l.file(), l.line())).unwrap_or_default();
        PANIC_MSG.with(|m| *m.borrow_mut() = format!("{}{}", msg, loc));
    }));
}

/// Execute one history; a panic anywhere below becomes a violation of kind `panic`.
pub fn run_one<W: World>(ops: &[W::Op], obs: &mut Obs) -> Outcome {
    let r = catch_unwind(AssertUnwindSafe(|| W::execute(ops, obs)));
    match r {
        Ok(o) => o,
        Err(_) => {
            let step = CUR_STEP.with(|c| c.get());
            let kind = CUR_KIND.with(|c| c.get());
            let sub = CUR_SUB.with(|c| c.get());
            let msg = PANIC_MSG.with(|m| m.borrow().clone());
            let class = format!("panic/{}/{}", W::op_kinds().get(kind).copied().unwrap_or("?"), sub);
            let mut d = fold(FNV_OFFSET, 0xDEAD);
            d = fold(d, step as u64);
            for b in class.bytes() {
                d = fold(d, b as u64);
            }
            obs.log(format!("#{} PANIC inside crate code: {}", step, msg));
            Outcome {
                digest: d,
                steps: step as u32 + 1,
                violation: Some(Violation { step, class, detail: format!("crate code panicked: {}", msg) }),
                nontrivial: true,
            }
        }
    }
}

// ---------------------------------------------------------------------------
// Batches

pub const CHUNK: u64 = 4096;
/// At most this many failing runs are remembered per chunk (lowest indexes first).
const FAILS_PER_CHUNK: usize = 64;

pub struct ChunkResult {
    pub digest: u64,
    pub runs: u64,
    pub steps: u64,
    pub obs: Obs,
    pub nontrivial_digests: Vec<u64>,
    pub fails: Vec<(u64, String)>,
    pub fail_count: u64,
    pub run_digests: Vec<u64>,
}

pub struct BatchResult {
    pub digest: u64,
    pub runs: u64,
    pub steps: u64,
    pub obs: Obs,
    pub distinct_nontrivial: u64,
    pub nontrivial_runs: u64,
    pub distinct_shapes: u64,
    pub distinct_values: u64,
    pub values_sampled_runs: u64,
    /// lowest failing run index per violation class
    pub fail_classes: BTreeMap<String, (u64, u64)>,
    pub fail_count: u64,
    pub run_digests: Vec<u64>,
}

pub struct BatchCfg {
    pub base_seed: u64,
    pub runs: u64,
    pub workers: usize,
    /// collect the distinct-values sample (C15) over the first this-many runs
    pub values_runs: u64,
    pub keep_run_digests: bool,
}

fn run_chunk<W: World>(cfg: &BatchCfg, c: u64) -> ChunkResult {
    let lo = c * CHUNK;
    let hi = ((c + 1) * CHUNK).min(cfg.runs);
    let mut obs = Obs::for_world::<W>();
    let mut res = ChunkResult {
        digest: FNV_OFFSET,
        runs: 0,
        steps: 0,
        obs: Obs::new(0, 0, 0),
        nontrivial_digests: Vec::new(),
        fails: Vec::new(),
        fail_count: 0,
        run_digests: Vec::new(),
    };
    for i in lo..hi {
        obs.collect_values = i < cfg.values_runs;
        let mut rng = Rng::from_seed(run_seed(cfg.base_seed, i));
        let ops = W::generate(&mut rng, &mut obs);
        let out = run_one::<W>(&ops, &mut obs);
        res.digest = fold(res.digest, out.digest);
        res.runs += 1;
        res.steps += out.steps as u64;
        if out.nontrivial {
            res.nontrivial_digests.push(out.digest);
        }
        if cfg.keep_run_digests {
            res.run_digests.push(out.digest);
        }
        if let Some(v) = out.violation {
            res.fail_count += 1;
            if res.fails.len() < FAILS_PER_CHUNK {
                res.fails.push((i, v.class));
            }
        }
    }
    res.obs = obs;
    res
}

pub fn run_batch<W: World>(cfg: &BatchCfg) -> BatchResult {
    let nchunks = (cfg.runs + CHUNK - 1) / CHUNK;
    let next = AtomicU64::new(0);
    let workers = cfg.workers.max(1);
    let mut slots: Vec<Option<ChunkResult>> = Vec::new();
    slots.resize_with(nchunks as usize, || None);
    let slots_mx = std::sync::Mutex::new(slots);
    std::thread::scope(|s| {
        for _ in 0..workers {
            s.spawn(|| loop {
                let c = next.fetch_add(1, Ordering::Relaxed);
                if c >= nchunks {
                    break;
                }
                let r = run_chunk::<W>(cfg, c);
                slots_mx.lock().unwrap()[c as usize] = Some(r);
            });
        }
    });
    let slots = slots_mx.into_inner().unwrap();
    // fold in chunk order: independent of worker count and of real scheduling
    let mut out = BatchResult {
        digest: FNV_OFFSET,
        runs: 0,
        steps: 0,
        obs: Obs::for_world::<W>(),
        distinct_nontrivial: 0,
        nontrivial_runs: 0,
        distinct_shapes: 0,
        distinct_values: 0,
        values_sampled_runs: cfg.values_runs.min(cfg.runs),
        fail_classes: BTreeMap::new(),
        fail_count: 0,
        run_digests: Vec::new(),
    };
    let mut nontrivial: Vec<u64> = Vec::new();
    for r in slots.into_iter() {
        let r = r.expect("chunk missing");
        out.digest = fold(out.digest, r.digest);
        out.runs += r.runs;
        out.steps += r.steps;
        out.obs.merge(&r.obs);
        nontrivial.extend_from_slice(&r.nontrivial_digests);
        out.fail_count += r.fail_count;
        for (i, class) in r.fails {
            let e = out.fail_classes.entry(class).or_insert((i, 0));
            if i < e.0 {
                e.0 = i;
            }
            e.1 += 1;
        }
        out.run_digests.extend_from_slice(&r.run_digests);
    }
    out.nontrivial_runs = nontrivial.len() as u64;
    nontrivial.sort_unstable();
    nontrivial.dedup();
    out.distinct_nontrivial = nontrivial.len() as u64;
    out.obs.shapes.sort_unstable();
    out.obs.shapes.dedup();
    out.distinct_shapes = out.obs.shapes.len() as u64;
    out.obs.values.sort_unstable();
    out.obs.values.dedup();
    out.distinct_values = out.obs.values.len() as u64;
    out
}

/// Regenerate the history of run `i` exactly as the batch did.
pub fn regenerate<W: World>(base_seed: u64, i: u64) -> Vec<W::Op> {
    let mut rng = Rng::from_seed(run_seed(base_seed, i));
    let mut obs = Obs::for_world::<W>();
    W::generate(&mut rng, &mut obs)
}

// ---------------------------------------------------------------------------
// Minimisation: delta debugging over the operation list, then argument
// simplification, keeping the violation class fixed.

pub const MINIMISE_BUDGET: usize = 20_000;

pub struct Minimised<O> {
    pub ops: Vec<O>,
    pub executions: usize,
}

pub fn minimise<W: World>(ops: Vec<W::Op>, class: &str) -> Minimised<W::Op> {
    let mut budget = MINIMISE_BUDGET;
    let mut execs = 0usize;
    let mut still_fails = |cand: &[W::Op], budget: &mut usize| -> bool {
        if *budget == 0 {
            return false;
        }
        *budget -= 1;
        execs += 1;
        let mut obs = Obs::for_world::<W>();
        match run_one::<W>(cand, &mut obs).violation {
            Some(v) => v.class == class,
            None => false,
        }
    };

    let mut cur = ops;
    // cut the tail after the failing step first
    {
        let mut obs = Obs::for_world::<W>();
        if let Some(v) = run_one::<W>(&cur, &mut obs).violation {
            if v.step + 1 < cur.len() {
                let cand: Vec<W::Op> = cur[..=v.step].to_vec();
                if still_fails(&cand, &mut budget) {
                    cur = cand;
                }
            }
        }
    }
    // ddmin
    let mut n = 2usize;
    while cur.len() >= 2 && budget > 0 {
        let len = cur.len();
        let chunk = (len + n - 1) / n;
        let mut reduced = false;
        let mut start = 0;
        while start < len {
            let end = (start + chunk).min(len);
            let mut cand: Vec<W::Op> = Vec::with_capacity(len - (end - start));
            cand.extend_from_slice(&cur[..start]);
            cand.extend_from_slice(&cur[end..]);
            if !cand.is_empty() && still_fails(&cand, &mut budget) {
                cur = cand;
                n = (n - 1).max(2);
                reduced = true;
                break;
            }
            start = end;
        }
        if !reduced {
            if chunk == 1 {
                break;
            }
            n = (n * 2).min(len);
        }
    }
    // single removals to a fixpoint
    let mut changed = true;
    while changed && budget > 0 {
        changed = false;
        let mut i = 0;
        while i < cur.len() && cur.len() > 1 {
            let mut cand = cur.clone();
            cand.remove(i);
            if still_fails(&cand, &mut budget) {
                cur = cand;
                changed = true;
            } else {
                i += 1;
            }
        }
    }
    // argument simplification to a fixpoint
    let mut changed = true;
    let mut rounds = 0;
    while changed && budget > 0 && rounds < 8 {
        changed = false;
        rounds += 1;
        for i in 0..cur.len() {
            let mut progress = true;
            while progress && budget > 0 {
                progress = false;
                for cand_op in W::simplify(&cur[i]) {
                    if cand_op == cur[i] {
                        continue;
                    }
                    let mut cand = cur.clone();
                    cand[i] = cand_op;
                    if still_fails(&cand, &mut budget) {
                        cur = cand;
                        changed = true;
                        progress = true;
                        break;
                    }
                }
            }
        }
        // removals may have become possible again
        let mut i = 0;
        while i < cur.len() && cur.len() > 1 && budget > 0 {
            let mut cand = cur.clone();
            cand.remove(i);
            if still_fails(&cand, &mut budget) {
                cur = cand;
                changed = true;
            } else {
                i += 1;
            }
        }
    }
    Minimised { ops: cur, executions: execs }
}
