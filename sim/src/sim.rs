//! The generic half of the simulator: what a world is, how one run is executed
//! (with panics inside crate code turned into violations), how a batch of
//! seeded runs is spread over worker threads without the result depending on
//! the number of workers, and how a failing history is minimised.

use crate::json::J;
use crate::rng::{fold, run_seed, Rng, FNV_OFFSET};
use std::cell::{Cell, RefCell};
use std::collections::BTreeMap;
use std::panic::{catch_unwind, AssertUnwindSafe};

#[derive(Clone, Debug)]
pub struct Violation {
    /// index of the operation at which the invariant failed
    pub step: usize,
    /// `<invariant>/<op kind>/<container size or set constructor>`; the unit of
    /// minimisation and of known-findings matching
    pub class: String,
    pub detail: String,
}

#[derive(Clone, Debug)]
pub struct Outcome {
    pub digest: u64,
    pub steps: u32,
    pub violation: Option<Violation>,
    pub nontrivial: bool,
}

/// Per-chunk observer. Everything in it is either a sum, a bit-or, or a list
/// that is later sorted, so merging chunks in index order gives a result that
/// does not depend on which thread ran which chunk.
pub struct Obs {
    pub probes: Vec<u64>,
    pub bigrams: Vec<u64>,
    pub nkinds: usize,
    pub cells: Vec<u64>,
    pub shapes: Vec<u64>,
    pub values: Vec<u64>,
    pub collect_values: bool,
    pub trace: Option<Vec<String>>,
    pub detail: bool,
    pub inv_checks: u64,
}

impl Obs {
    pub fn new(nprobes: usize, nkinds: usize, cell_bits: usize) -> Obs {
        Obs {
            probes: vec![0; nprobes],
            bigrams: vec![0; nkinds * nkinds],
            nkinds,
            cells: vec![0; (cell_bits + 63) / 64],
            shapes: Vec::new(),
            values: Vec::new(),
            collect_values: false,
            trace: None,
            detail: false,
            inv_checks: 0,
        }
    }

    pub fn for_world<W: World>() -> Obs {
        Obs::new(W::probe_names().len(), W::op_kinds().len(), W::cell_bits())
    }

    #[inline]
    pub fn hit(&mut self, p: usize) {
        self.probes[p] += 1;
    }

    #[inline]
    pub fn cell(&mut self, c: usize) {
        self.cells[c >> 6] |= 1u64 << (c & 63);
    }

    #[inline]
    pub fn bigram(&mut self, a: usize, b: usize) {
        self.bigrams[a * self.nkinds + b] += 1;
    }

    #[inline]
    pub fn tracing(&self) -> bool {
        self.trace.is_some()
    }

    pub fn log(&mut self, s: String) {
        if let Some(t) = self.trace.as_mut() {
            t.push(s);
        }
    }

    pub fn merge(&mut self, o: &Obs) {
        for (a, b) in self.probes.iter_mut().zip(&o.probes) {
            *a += *b;
        }
        for (a, b) in self.bigrams.iter_mut().zip(&o.bigrams) {
            *a += *b;
        }
        for (a, b) in self.cells.iter_mut().zip(&o.cells) {
            *a |= *b;
        }
        self.shapes.extend_from_slice(&o.shapes);
        self.values.extend_from_slice(&o.values);
        self.inv_checks += o.inv_checks;
    }

    pub fn cells_set(&self) -> u64 {
        self.cells.iter().map(|w| w.count_ones() as u64).sum()
    }
}

pub trait World {
    type Op: Clone + PartialEq + Send + Sync;

    fn id() -> &'static str;
    fn op_kinds() -> &'static [&'static str];
    fn probe_names() -> Vec<String>;
    fn cell_bits() -> usize;
    fn cell_rule() -> &'static str;
    /// Number of cells that can occur at all, when known exactly (otherwise `cell_bits` is an upper bound).
    fn cells_reachable() -> Option<u64> {
        None
    }
    fn nontrivial_rule() -> &'static str;

    /// Draw one history. Every choice comes from `rng`; swarm knobs are counted in `obs`.
    fn generate(rng: &mut Rng, obs: &mut Obs) -> Vec<Self::Op>;
    /// Run a history against the real crate and the model. Stops at the first violation.
    fn execute(ops: &[Self::Op], obs: &mut Obs) -> Outcome;
    /// The fixed scripted histories of DESIGN §3.5.
    fn directed() -> Vec<(String, Vec<Self::Op>)>;

    fn op_kind(op: &Self::Op) -> usize;
    /// A short history for the concurrent phase whose *shape* (which crate functions, which sizes)
    /// is fixed by `shape` — shared by all callers of one iteration — and whose values come from the
    /// caller's own `rng`. Calls are repeated with identical arguments, so that a cache filled by the
    /// first is hit by the second while another caller is inside the same function.
    #[allow(dead_code)]
    fn conc_history(_rng: &mut Rng, _shape: u64) -> Option<Vec<Self::Op>> {
        None
    }
    /// Source files of the crate whose panics count against this property in the concurrent
    /// phase (a panic elsewhere is some other property's business).
    #[allow(dead_code)]
    fn anchored_files() -> &'static [&'static str] {
        &[]
    }
    /// Kinds that create objects (kept when a history is thinned for the concurrent phase).
    #[allow(dead_code)]
    fn builder_kinds() -> &'static [usize] {
        &[]
    }
    fn op_to_json(op: &Self::Op) -> J;
    fn op_from_json(j: &J) -> Result<Self::Op, String>;
    /// Simpler variants of one operation, tried by the minimiser.
    fn simplify(op: &Self::Op) -> Vec<Self::Op>;
    /// Static description for the evidence file.
    fn describe() -> J;
}

// ---------------------------------------------------------------------------
// Exploration depth: 0 = the standard swarm; 1 = half of the runs are drawn from a deeper
// distribution (many more long-lived histories, longer texts). One value per process, set
// from the command line before anything runs; part of what a context replay must restore.

static DEPTH: std::sync::atomic::AtomicU8 = std::sync::atomic::AtomicU8::new(0);
pub fn set_depth(d: u8) {
    DEPTH.store(d, std::sync::atomic::Ordering::Relaxed);
}
pub fn depth() -> u8 {
    DEPTH.load(std::sync::atomic::Ordering::Relaxed)
}

// Whether this process runs the crate with a logger installed at Trace level (the second
// profile does; like the depth it is handed to every child and stored in replay files).
static LOG_ON: std::sync::atomic::AtomicBool = std::sync::atomic::AtomicBool::new(false);
pub fn set_log_on(on: bool) {
    LOG_ON.store(on, std::sync::atomic::Ordering::Relaxed);
}
pub fn log_on() -> bool {
    LOG_ON.load(std::sync::atomic::Ordering::Relaxed)
}
/// Arguments that make a child process run in the same configuration as this one.
pub fn config_args(cmd: &mut std::process::Command) {
    cmd.arg("--depth").arg(depth().to_string());
    if log_on() {
        cmd.arg("--log-on").arg("1");
    }
}

// ---------------------------------------------------------------------------
// Panic capture. The executor notes where it is before every call into the
// crate; the hook stores the message; nothing is printed.

thread_local! {
    pub static CUR_STEP: Cell<usize> = const { Cell::new(0) };
    pub static CUR_KIND: Cell<usize> = const { Cell::new(0) };
    pub static CUR_SUB: Cell<&'static str> = const { Cell::new("") };
    static PANIC_MSG: RefCell<String> = const { RefCell::new(String::new()) };
}

#[inline]
pub fn at(step: usize, kind: usize, sub: &'static str) {
    CUR_STEP.with(|c| c.set(step));
    CUR_KIND.with(|c| c.set(kind));
    CUR_SUB.with(|c| c.set(sub));
}

static LAST_PANIC: std::sync::Mutex<String> = std::sync::Mutex::new(String::new());

#[allow(dead_code)]
pub fn clear_last_panic() {
    if let Ok(mut g) = LAST_PANIC.lock() {
        g.clear();
    }
}

/// Message and location of the first panic on any thread of this process since the last clear.
#[allow(dead_code)]
pub fn last_panic_anywhere() -> String {
    LAST_PANIC.lock().map(|g| g.clone()).unwrap_or_default()
}

/// Run a call into the crate that the current property does not judge; an ordinary panic (a
/// message payload) is swallowed and forgotten, anything else — such as the forced unwind with
/// which a coroutine scheduler tears down an abandoned task — is passed on untouched.
pub fn swallow_crate_panic<T>(f: impl FnOnce() -> T) -> Option<T> {
    match catch_unwind(AssertUnwindSafe(f)) {
        Ok(v) => Some(v),
        Err(p) => {
            if p.is::<&str>() || p.is::<String>() {
                clear_last_panic();
                None
            } else {
                std::panic::resume_unwind(p)
            }
        }
    }
}

pub fn install_quiet_panic_hook() {
    std::panic::set_hook(Box::new(|info| {
        let msg = if let Some(s) = info.payload().downcast_ref::<&str>() {
            (*s).to_string()
        } else if let Some(s) = info.payload().downcast_ref::<String>() {
            s.clone()
        } else {
            "<non-string panic payload>".to_string()
        };
        let loc = info.location().map(|l| format!(" at {}:{}", l.file(), l.line())).unwrap_or_default();
        if let Ok(mut g) = LAST_PANIC.lock() {
            if g.is_empty() {
                *g = format!("{}{}", msg, loc); // the first one since it was last cleared
            }
        }
        PANIC_MSG.with(|m| *m.borrow_mut() = format!("{}{}", msg, loc));
    }));
}

/// Execute one history; a panic anywhere below becomes a violation of kind `panic`.
pub fn run_one<W: World>(ops: &[W::Op], obs: &mut Obs) -> Outcome {
    let r = catch_unwind(AssertUnwindSafe(|| W::execute(ops, obs)));
    match r {
        Ok(o) => o,
        Err(_) => {
            let step = CUR_STEP.with(|c| c.get());
            let kind = CUR_KIND.with(|c| c.get());
            let sub = CUR_SUB.with(|c| c.get());
            let msg = PANIC_MSG.with(|m| m.borrow().clone());
            // a panic whose location is one of the harness's own files (built with relative paths,
            // `src/…`; the crate and the standard library have absolute ones) is our bug, not a finding
            let in_harness = msg.rsplit(" at ").next().map(|loc| loc.starts_with("src/")).unwrap_or(false);
            // (Every crate call the property does not judge — container construction on behalf of
            // the bit-set world, sort_in_place, the environment operations — runs under
            // `swallow_crate_panic`; a panic that arrives here happened inside a judged call, whatever
            // file the unwinding started in.)
            let class = if in_harness { format!("harness-panic/{}/{}", W::op_kinds().get(kind).copied().unwrap_or("?"), sub) } else { format!("panic/{}/{}", W::op_kinds().get(kind).copied().unwrap_or("?"), sub) };
            let mut d = fold(FNV_OFFSET, 0xDEAD);
            d = fold(d, step as u64);
            for b in class.bytes() {
                d = fold(d, b as u64);
            }
            obs.log(format!("#{} PANIC inside crate code: {}", step, msg));
            Outcome {
                digest: d,
                steps: step as u32 + 1,
                violation: Some(Violation { step, class, detail: format!("crate code panicked: {}", msg) }),
                nontrivial: true,
            }
        }
    }
}

// ---------------------------------------------------------------------------
// Batches

pub const CHUNK: u64 = 4096;
/// At most this many failing runs are remembered per chunk (lowest indexes first).
const FAILS_PER_CHUNK: usize = 64;

pub struct ChunkResult {
    pub digest: u64,
    pub runs: u64,
    pub steps: u64,
    pub obs: Obs,
    pub nontrivial_digests: Vec<u64>,
    pub fails: Vec<(u64, String)>,
    pub fail_count: u64,
    pub run_digests: Vec<u64>,
}

pub struct BatchResult {
    pub digest: u64,
    pub runs: u64,
    pub steps: u64,
    pub obs: Obs,
    pub distinct_nontrivial: u64,
    pub nontrivial_runs: u64,
    pub distinct_shapes: u64,
    pub distinct_values: u64,
    pub values_sampled_runs: u64,
    /// lowest failing run index per violation class
    pub fail_classes: BTreeMap<String, (u64, u64)>,
    pub fail_count: u64,
    pub run_digests: Vec<u64>,
    pub lanes: u64,
}

pub struct BatchCfg {
    pub prop: String,
    pub base_seed: u64,
    pub runs: u64,
    /// how many lane processes may run at the same time (does not influence any result)
    pub workers: usize,
    /// collect the distinct-values sample (C15) over the first this-many runs
    pub values_runs: u64,
    pub keep_run_digests: bool,
    /// directory for the lane result files
    pub scratch: std::path::PathBuf,
}

/// Every child process that executes crate code is started with address-space layout
/// randomisation switched off (`setarch <arch> -R`, when util-linux's setarch is there), so that a
/// tree whose behaviour depends on the *addresses* of objects (a cache keyed by `&self as usize`,
/// say) still behaves the same in the lane that found a failure and in the process that replays it.
pub fn child_command(exe: &std::path::Path) -> std::process::Command {
    let setarch = std::path::Path::new("/usr/bin/setarch");
    static USABLE: std::sync::OnceLock<bool> = std::sync::OnceLock::new();
    let usable = *USABLE.get_or_init(|| {
        // some sandboxes refuse personality(ADDR_NO_RANDOMIZE): probe once
        setarch.exists() && std::env::var_os("CKC_SIM_NO_SETARCH").is_none() && std::process::Command::new(setarch).arg(std::env::consts::ARCH).arg("-R").arg("true").stdout(std::process::Stdio::null()).stderr(std::process::Stdio::null()).status().map(|s| s.success()).unwrap_or(false)
    });
    if usable {
        let mut c = std::process::Command::new(setarch);
        c.arg(std::env::consts::ARCH).arg("-R").arg(exe);
        c
    } else {
        std::process::Command::new(exe)
    }
}

/// The seeded runs are executed in a fixed number of *lanes*. A lane is a fresh process that
/// executes its chunks (chunk c belongs to lane c mod LANES) one after the other on one thread.
/// Nothing is shared between lanes, so even a tree that keeps process-wide state (a static cache,
/// a counter) cannot make a result depend on real thread scheduling: every history runs in a
/// context that is a pure function of (seed, lane), and can be re-created exactly.
pub const LANES: u64 = 16;

pub struct LaneCfg {
    pub base_seed: u64,
    pub runs: u64,
    pub values_runs: u64,
    pub keep_run_digests: bool,
    pub lane: u64,
    pub lanes: u64,
}

fn run_chunk<W: World>(cfg: &LaneCfg, c: u64) -> ChunkResult {
    let lo = c * CHUNK;
    let hi = ((c + 1) * CHUNK).min(cfg.runs);
    let mut obs = Obs::for_world::<W>();
    let mut res = ChunkResult {
        digest: FNV_OFFSET,
        runs: 0,
        steps: 0,
        obs: Obs::new(0, 0, 0),
        nontrivial_digests: Vec::new(),
        fails: Vec::new(),
        fail_count: 0,
        run_digests: Vec::new(),
    };
    for i in lo..hi {
        obs.collect_values = i < cfg.values_runs;
        let mut rng = Rng::from_seed(run_seed(cfg.base_seed, i));
        let ops = W::generate(&mut rng, &mut obs);
        let out = run_one::<W>(&ops, &mut obs);
        res.digest = fold(res.digest, out.digest);
        res.runs += 1;
        res.steps += out.steps as u64;
        if out.nontrivial {
            res.nontrivial_digests.push(out.digest);
        }
        if cfg.keep_run_digests {
            res.run_digests.push(out.digest);
        }
        if let Some(v) = out.violation {
            res.fail_count += 1;
            if res.fails.len() < FAILS_PER_CHUNK {
                res.fails.push((i, v.class));
            }
        }
    }
    res.obs = obs;
    res
}

/// The chunks of one lane, in order, on the calling thread.
pub fn run_lane<W: World>(cfg: &LaneCfg) -> Vec<(u64, ChunkResult)> {
    let nchunks = (cfg.runs + CHUNK - 1) / CHUNK;
    let mut out = Vec::new();
    let mut c = cfg.lane;
    while c < nchunks {
        out.push((c, run_chunk::<W>(cfg, c)));
        c += cfg.lanes;
    }
    out
}

/// Re-create the context of seeded run `to` and execute it: the runs of its lane with index in
/// `from..=to`, in lane order, on this thread, in this (fresh) process. Returns the outcome of `to`.
pub fn run_lane_context<W: World>(base_seed: u64, lanes: u64, from: u64, to: u64, obs_last: &mut Obs) -> Outcome {
    let lane = (to / CHUNK) % lanes;
    let mut c = lane;
    let mut scratch = Obs::for_world::<W>();
    loop {
        let lo = c * CHUNK;
        let hi = (c + 1) * CHUNK;
        if hi > from {
            for i in lo.max(from)..hi {
                let mut rng = Rng::from_seed(run_seed(base_seed, i));
                if i == to {
                    let ops = W::generate(&mut rng, obs_last);
                    return run_one::<W>(&ops, obs_last);
                }
                let ops = W::generate(&mut rng, &mut scratch);
                let _ = run_one::<W>(&ops, &mut scratch);
            }
        }
        c += lanes;
    }
}

/// First run index of the lane that run `i` belongs to.
pub fn lane_start(i: u64, lanes: u64) -> u64 {
    ((i / CHUNK) % lanes) * CHUNK
}

// ---- lane result files: little-endian u64 words, strings as length + bytes ------------------

struct W64(Vec<u8>);
impl W64 {
    fn u(&mut self, x: u64) {
        self.0.extend_from_slice(&x.to_le_bytes());
    }
    fn v(&mut self, xs: &[u64]) {
        self.u(xs.len() as u64);
        for x in xs {
            self.u(*x);
        }
    }
    fn s(&mut self, s: &str) {
        self.u(s.len() as u64);
        self.0.extend_from_slice(s.as_bytes());
    }
}
struct R64<'a> {
    b: &'a [u8],
    i: usize,
}
impl<'a> R64<'a> {
    fn u(&mut self) -> Result<u64, String> {
        if self.i + 8 > self.b.len() {
            return Err("lane file truncated".into());
        }
        let mut a = [0u8; 8];
        a.copy_from_slice(&self.b[self.i..self.i + 8]);
        self.i += 8;
        Ok(u64::from_le_bytes(a))
    }
    fn v(&mut self) -> Result<Vec<u64>, String> {
        let n = self.u()? as usize;
        if self.i + n * 8 > self.b.len() {
            return Err("lane file truncated".into());
        }
        let mut out = Vec::with_capacity(n);
        for _ in 0..n {
            out.push(self.u()?);
        }
        Ok(out)
    }
    fn s(&mut self) -> Result<String, String> {
        let n = self.u()? as usize;
        if self.i + n > self.b.len() {
            return Err("lane file truncated".into());
        }
        let s = String::from_utf8_lossy(&self.b[self.i..self.i + n]).to_string();
        self.i += n;
        Ok(s)
    }
}

const LANE_MAGIC: u64 = 0x434b_434c_414e_4531; // "CKCLANE1"

pub fn write_lane(path: &std::path::Path, chunks: &[(u64, ChunkResult)]) -> Result<(), String> {
    let mut w = W64(Vec::new());
    w.u(LANE_MAGIC);
    w.u(chunks.len() as u64);
    for (c, r) in chunks {
        w.u(*c);
        w.u(r.digest);
        w.u(r.runs);
        w.u(r.steps);
        w.u(r.fail_count);
        w.v(&r.nontrivial_digests);
        w.v(&r.run_digests);
        w.u(r.fails.len() as u64);
        for (i, class) in &r.fails {
            w.u(*i);
            w.s(class);
        }
        w.v(&r.obs.probes);
        w.v(&r.obs.bigrams);
        w.v(&r.obs.cells);
        w.v(&r.obs.shapes);
        w.v(&r.obs.values);
        w.u(r.obs.inv_checks);
    }
    std::fs::write(path, w.0).map_err(|e| format!("{}: {}", path.display(), e))
}

pub fn read_lane<Wd: World>(path: &std::path::Path) -> Result<Vec<(u64, ChunkResult)>, String> {
    let bytes = std::fs::read(path).map_err(|e| format!("{}: {}", path.display(), e))?;
    let mut r = R64 { b: &bytes, i: 0 };
    if r.u()? != LANE_MAGIC {
        return Err(format!("{}: not a lane file", path.display()));
    }
    let n = r.u()?;
    let mut out = Vec::new();
    for _ in 0..n {
        let c = r.u()?;
        let digest = r.u()?;
        let runs = r.u()?;
        let steps = r.u()?;
        let fail_count = r.u()?;
        let nontrivial_digests = r.v()?;
        let run_digests = r.v()?;
        let nf = r.u()?;
        let mut fails = Vec::new();
        for _ in 0..nf {
            let i = r.u()?;
            let class = r.s()?;
            fails.push((i, class));
        }
        let mut obs = Obs::for_world::<Wd>();
        obs.probes = r.v()?;
        obs.bigrams = r.v()?;
        obs.cells = r.v()?;
        obs.shapes = r.v()?;
        obs.values = r.v()?;
        obs.inv_checks = r.u()?;
        let proto = Obs::for_world::<Wd>();
        if obs.probes.len() != proto.probes.len() || obs.bigrams.len() != proto.bigrams.len() || obs.cells.len() != proto.cells.len() {
            return Err(format!("{}: lane file written by a different build", path.display()));
        }
        out.push((c, ChunkResult { digest, runs, steps, obs, nontrivial_digests, fails, fail_count, run_digests }));
    }
    Ok(out)
}

pub fn run_batch<W: World>(cfg: &BatchCfg) -> Result<BatchResult, String> {
    let nchunks = (cfg.runs + CHUNK - 1) / CHUNK;
    let exe = std::env::current_exe().map_err(|e| format!("current_exe: {}", e))?;
    let dir = cfg.scratch.join(format!("lanes-{}-{}", cfg.prop, std::process::id()));
    std::fs::create_dir_all(&dir).map_err(|e| format!("{}: {}", dir.display(), e))?;
    let lanes = LANES.min(nchunks.max(1));
    let mut running: Vec<(u64, std::process::Child)> = Vec::new();
    let mut failed: Vec<String> = Vec::new();
    let wait_one = |running: &mut Vec<(u64, std::process::Child)>, failed: &mut Vec<String>| {
        let (lane, mut child) = running.remove(0);
        match child.wait() {
            Ok(st) if st.success() => {}
            Ok(st) => failed.push(format!("lane {} exited with {:?}", lane, st.code())),
            Err(e) => failed.push(format!("lane {}: {}", lane, e)),
        }
    };
    for lane in 0..lanes {
        if running.len() >= cfg.workers.max(1) {
            wait_one(&mut running, &mut failed);
        }
        let mut cmd = child_command(&exe);
        cmd.arg("lane").arg("--prop").arg(&cfg.prop).arg("--seed").arg(cfg.base_seed.to_string()).arg("--runs").arg(cfg.runs.to_string()).arg("--lane").arg(lane.to_string()).arg("--lanes").arg(lanes.to_string()).arg("--values-runs").arg(cfg.values_runs.to_string()).arg("--out").arg(dir.join(format!("lane-{}.bin", lane)));
        config_args(&mut cmd);
        if cfg.keep_run_digests {
            cmd.arg("--keep-run-digests");
        }
        cmd.stdout(std::process::Stdio::null());
        match cmd.spawn() {
            Ok(child) => running.push((lane, child)),
            Err(e) => failed.push(format!("cannot spawn lane {}: {}", lane, e)),
        }
    }
    while !running.is_empty() {
        wait_one(&mut running, &mut failed);
    }
    if !failed.is_empty() {
        let _ = std::fs::remove_dir_all(&dir);
        return Err(failed.join("; "));
    }
    let mut slots: Vec<Option<ChunkResult>> = Vec::new();
    slots.resize_with(nchunks as usize, || None);
    for lane in 0..lanes {
        let path = dir.join(format!("lane-{}.bin", lane));
        for (c, r) in read_lane::<W>(&path)? {
            if (c as usize) < slots.len() {
                slots[c as usize] = Some(r);
            }
        }
    }
    let _ = std::fs::remove_dir_all(&dir);
    // fold in chunk order: independent of how many lanes ran at once
    let mut out = BatchResult {
        digest: FNV_OFFSET,
        runs: 0,
        steps: 0,
        obs: Obs::for_world::<W>(),
        distinct_nontrivial: 0,
        nontrivial_runs: 0,
        distinct_shapes: 0,
        distinct_values: 0,
        values_sampled_runs: cfg.values_runs.min(cfg.runs),
        fail_classes: BTreeMap::new(),
        fail_count: 0,
        run_digests: Vec::new(),
        lanes,
    };
    let mut nontrivial: Vec<u64> = Vec::new();
    for r in slots.into_iter() {
        let r = r.ok_or("a chunk is missing from the lane files")?;
        out.digest = fold(out.digest, r.digest);
        out.runs += r.runs;
        out.steps += r.steps;
        out.obs.merge(&r.obs);
        nontrivial.extend_from_slice(&r.nontrivial_digests);
        out.fail_count += r.fail_count;
        for (i, class) in r.fails {
            let e = out.fail_classes.entry(class).or_insert((i, 0));
            if i < e.0 {
                e.0 = i;
            }
            e.1 += 1;
        }
        out.run_digests.extend_from_slice(&r.run_digests);
    }
    out.nontrivial_runs = nontrivial.len() as u64;
    nontrivial.sort_unstable();
    nontrivial.dedup();
    out.distinct_nontrivial = nontrivial.len() as u64;
    out.obs.shapes.sort_unstable();
    out.obs.shapes.dedup();
    out.distinct_shapes = out.obs.shapes.len() as u64;
    out.obs.values.sort_unstable();
    out.obs.values.dedup();
    out.distinct_values = out.obs.values.len() as u64;
    Ok(out)
}

/// Regenerate the history of run `i` exactly as the batch did.
pub fn regenerate<W: World>(base_seed: u64, i: u64) -> Vec<W::Op> {
    let mut rng = Rng::from_seed(run_seed(base_seed, i));
    let mut obs = Obs::for_world::<W>();
    W::generate(&mut rng, &mut obs)
}

// ---------------------------------------------------------------------------
// Minimisation: delta debugging over the operation list, then argument
// simplification, keeping the violation class fixed.

pub const MINIMISE_BUDGET: usize = 20_000;

pub struct Minimised<O> {
    pub ops: Vec<O>,
    pub executions: usize,
}

/// `fails(candidate)` decides whether a candidate history still shows the violation class; the
/// caller chooses between executing in this process (fast) and in a fresh process per candidate
/// (needed when the tree keeps process-wide state, so that one candidate cannot influence the next).
pub fn minimise<W: World>(ops: Vec<W::Op>, fails: &mut dyn FnMut(&[W::Op]) -> Option<usize>, max_execs: usize) -> Minimised<W::Op> {
    let mut budget = max_execs;
    let mut execs = 0usize;
    let mut probe = |cand: &[W::Op], budget: &mut usize| -> Option<usize> {
        if *budget == 0 {
            return None;
        }
        *budget -= 1;
        execs += 1;
        fails(cand)
    };

    let mut cur = ops;
    // cut the tail after the failing step first
    if let Some(step) = probe(&cur, &mut budget) {
        if step + 1 < cur.len() {
            let cand: Vec<W::Op> = cur[..=step].to_vec();
            if probe(&cand, &mut budget).is_some() {
                cur = cand;
            }
        }
    }
    // ddmin
    let mut n = 2usize;
    while cur.len() >= 2 && budget > 0 {
        let len = cur.len();
        let chunk = (len + n - 1) / n;
        let mut reduced = false;
        let mut start = 0;
        while start < len {
            let end = (start + chunk).min(len);
            let mut cand: Vec<W::Op> = Vec::with_capacity(len - (end - start));
            cand.extend_from_slice(&cur[..start]);
            cand.extend_from_slice(&cur[end..]);
            if !cand.is_empty() && probe(&cand, &mut budget).is_some() {
                cur = cand;
                n = (n - 1).max(2);
                reduced = true;
                break;
            }
            start = end;
        }
        if !reduced {
            if chunk == 1 {
                break;
            }
            n = (n * 2).min(len);
        }
    }
    // single removals to a fixpoint
    let mut changed = true;
    while changed && budget > 0 {
        changed = false;
        let mut i = 0;
        while i < cur.len() && cur.len() > 1 {
            let mut cand = cur.clone();
            cand.remove(i);
            if probe(&cand, &mut budget).is_some() {
                cur = cand;
                changed = true;
            } else {
                i += 1;
            }
        }
    }
    // argument simplification to a fixpoint
    let mut changed = true;
    let mut rounds = 0;
    while changed && budget > 0 && rounds < 8 {
        changed = false;
        rounds += 1;
        for i in 0..cur.len() {
            let mut progress = true;
            while progress && budget > 0 {
                progress = false;
                for cand_op in W::simplify(&cur[i]) {
                    if cand_op == cur[i] {
                        continue;
                    }
                    let mut cand = cur.clone();
                    cand[i] = cand_op;
                    if probe(&cand, &mut budget).is_some() {
                        cur = cand;
                        changed = true;
                        progress = true;
                        break;
                    }
                }
            }
        }
        // removals may have become possible again
        let mut i = 0;
        while i < cur.len() && cur.len() > 1 && budget > 0 {
            let mut cand = cur.clone();
            cand.remove(i);
            if probe(&cand, &mut budget).is_some() {
                cur = cand;
                changed = true;
            } else {
                i += 1;
            }
        }
    }
    Minimised { ops: cur, executions: execs }
}
