//! The only source of choice in the simulator: splitmix64 to derive per-run
//! seeds, xoshiro256** as the per-run stream. Own code, so no crate version
//! can change the sequence behind a seed.

pub const GOLDEN: u64 = 0x9E37_79B9_7F4A_7C15;

#[inline]
pub fn splitmix64_next(state: &mut u64) -> u64 {
    *state = state.wrapping_add(GOLDEN);
    let mut z = *state;
    z = (z ^ (z >> 30)).wrapping_mul(0xBF58_476D_1CE4_E5B9);
    z = (z ^ (z >> 27)).wrapping_mul(0x94D0_49BB_1331_11EB);
    z ^ (z >> 31)
}

/// Seed of run `i` of a batch started from `base` (DESIGN §3.2).
#[inline]
pub fn run_seed(base: u64, i: u64) -> u64 {
    let mut s = base ^ (i.wrapping_add(1)).wrapping_mul(GOLDEN);
    splitmix64_next(&mut s)
}

#[derive(Clone)]
pub struct Rng {
    s: [u64; 4],
}

impl Rng {
    pub fn from_seed(seed: u64) -> Rng {
        let mut sm = seed;
        let mut s = [0u64; 4];
        for x in s.iter_mut() {
            *x = splitmix64_next(&mut sm);
        }
        if s == [0, 0, 0, 0] {
            s[0] = GOLDEN;
        }
        Rng { s }
    }

    #[inline]
    pub fn next_u64(&mut self) -> u64 {
        let result = self.s[1].wrapping_mul(5).rotate_left(7).wrapping_mul(9);
        let t = self.s[1] << 17;
        self.s[2] ^= self.s[0];
        self.s[3] ^= self.s[1];
        self.s[1] ^= self.s[2];
        self.s[0] ^= self.s[3];
        self.s[2] ^= t;
        self.s[3] = self.s[3].rotate_left(45);
        result
    }

    #[inline]
    pub fn next_u32(&mut self) -> u32 {
        (self.next_u64() >> 32) as u32
    }

    /// Uniform in 0..n (n > 0); multiply-shift, bias < 2^-32 for the small n used here.
    #[inline]
    pub fn below(&mut self, n: u64) -> u64 {
        debug_assert!(n > 0);
        ((self.next_u64() as u128 * n as u128) >> 64) as u64
    }

    #[inline]
    pub fn usize_below(&mut self, n: usize) -> usize {
        self.below(n as u64) as usize
    }

    /// Inclusive range.
    #[allow(dead_code)]
    #[inline]
    pub fn range(&mut self, lo: u64, hi: u64) -> u64 {
        lo + self.below(hi - lo + 1)
    }

    #[inline]
    pub fn chance(&mut self, num: u64, den: u64) -> bool {
        self.below(den) < num
    }

    #[inline]
    pub fn pick<'a, T>(&mut self, xs: &'a [T]) -> &'a T {
        &xs[self.usize_below(xs.len())]
    }

    /// Index drawn with probability proportional to the weights (sum > 0).
    pub fn weighted(&mut self, w: &[u32]) -> usize {
        let total: u64 = w.iter().map(|x| *x as u64).sum();
        let mut r = self.below(total);
        for (i, x) in w.iter().enumerate() {
            if r < *x as u64 {
                return i;
            }
            r -= *x as u64;
        }
        w.len() - 1
    }

    /// Fisher-Yates on a small slice.
    pub fn shuffle<T>(&mut self, xs: &mut [T]) {
        for i in (1..xs.len()).rev() {
            let j = self.usize_below(i + 1);
            xs.swap(i, j);
        }
    }
}

/// FNV-1a style fold over 64-bit words; the digest of an event log.
pub const FNV_OFFSET: u64 = 0xcbf2_9ce4_8422_2325;
pub const FNV_PRIME: u64 = 0x0000_0100_0000_01B3;

#[inline]
pub fn fold(h: u64, x: u64) -> u64 {
    // two rounds so that high bits of x reach low bits of h
    let h = (h ^ (x & 0xFFFF_FFFF)).wrapping_mul(FNV_PRIME);
    (h ^ (x >> 32)).wrapping_mul(FNV_PRIME)
}

#[cfg(test)]
mod tests {
    use super::*;

    #[test]
    fn xoshiro_reference_vector() {
        // xoshiro256** with state {1,2,3,4}: first outputs from the reference C code.
        let mut r = Rng { s: [1, 2, 3, 4] };
        assert_eq!(r.next_u64(), 11520);
        assert_eq!(r.next_u64(), 0);
        assert_eq!(r.next_u64(), 1509978240);
        assert_eq!(r.next_u64(), 1215971899390074240);
    }

    #[test]
    fn splitmix_reference_vector() {
        let mut s = 1234567u64;
        assert_eq!(splitmix64_next(&mut s), 6457827717110365317);
        assert_eq!(splitmix64_next(&mut s), 3203168211198807973);
    }

    #[test]
    fn below_in_range() {
        let mut r = Rng::from_seed(7);
        for n in 1..200u64 {
            for _ in 0..50 {
                assert!(r.below(n) < n);
            }
        }
    }
}
