//! The harness's own statement of the card layout and deck order, written from
//! the documentation (lib.rs doc comment, C10/C14/C15 text) and not from the
//! crate's constants, so that a wrong constant or table in the crate shows up
//! as a disagreement instead of being copied into the oracle.
//!
//! word  = prime(rank) | rank << 8 | suit_bit << 12 | 1 << (16 + rank)
//! rank  : deuce = 0 … ace = 12;  primes 2,3,5,7,11,13,17,19,23,29,31,37,41
//! suit  : spades 8, hearts 4, diamonds 2, clubs 1
//! deck  : spades, hearts, diamonds, clubs; inside a suit ace down to deuce
//! bit   : deck index i  <->  bit (51 - i) of the 64-bit set

pub const PRIMES: [u32; 13] = [2, 3, 5, 7, 11, 13, 17, 19, 23, 29, 31, 37, 41];
pub const SUIT_BITS: [u32; 4] = [8, 4, 2, 1];

pub const CARD_MASK: u64 = (1u64 << 52) - 1;

#[inline]
pub fn rank_of(deck_index: usize) -> u32 {
    12 - (deck_index % 13) as u32
}

#[inline]
pub fn suit_of(deck_index: usize) -> usize {
    deck_index / 13
}

#[inline]
pub fn card_word(deck_index: usize) -> u32 {
    let r = rank_of(deck_index);
    PRIMES[r as usize] | (r << 8) | (SUIT_BITS[suit_of(deck_index)] << 12) | (1u32 << (16 + r))
}

#[inline]
pub fn card_bit(deck_index: usize) -> u64 {
    1u64 << (51 - deck_index)
}

/// Deck index of a single card bit (bit 51 is index 0).
#[allow(dead_code)]
#[inline]
pub fn index_of_bit(bit_pos: u32) -> usize {
    (51 - bit_pos) as usize
}

pub const RANK_UPPER: [char; 13] = ['2', '3', '4', '5', '6', '7', '8', '9', 'T', 'J', 'Q', 'K', 'A'];
pub const RANK_LOWER: [char; 13] = ['2', '3', '4', '5', '6', '7', '8', '9', 't', 'j', 'q', 'k', 'a'];
/// filled glyph, outline glyph, upper letter, lower letter — per suit in deck order
pub const SUIT_SPELL: [[char; 4]; 4] = [['♠', '♤', 'S', 's'], ['♥', '♡', 'H', 'h'], ['♦', '♢', 'D', 'd'], ['♣', '♧', 'C', 'c']];

/// Number of spellings of a card: rank has 2 (3 for the ten: T, t, 0), suit has 4.
pub fn spellings(deck_index: usize) -> usize {
    if rank_of(deck_index) == 8 {
        12
    } else {
        8
    }
}

/// The `which`-th spelling of the card (`which` is reduced modulo the number available).
pub fn spelling(deck_index: usize, which: usize) -> String {
    let r = rank_of(deck_index) as usize;
    let which = which % spellings(deck_index);
    let (ri, si) = (which / 4, which % 4);
    let rc = match ri {
        0 => RANK_UPPER[r],
        1 => RANK_LOWER[r],
        _ => '0',
    };
    let mut s = String::new();
    s.push(rc);
    s.push(SUIT_SPELL[suit_of(deck_index)][si]);
    s
}

pub fn card_name(deck_index: usize) -> String {
    spelling(deck_index, 0)
}

/// Tokens that are not a spelling of any card.
/// The second half are look-alikes: characters that case-fold, width-fold or visually resemble
/// a rank or suit symbol (KELVIN SIGN lower-cases to k, LONG S upper-cases to S, fullwidth and
/// mathematical letters, Cyrillic А/К) but are not one — the kind of token code accepts by
/// accident. Deliberately absent: spellings a parser might one day accept on purpose ("10S",
/// suit-before-rank, the single playing-card code points); C12 says they are not cards today,
/// but this check does not need to be the one that objects to such an extension.
pub const JUNK: [&str; 28] = [
    "XX", "__", "--", "??", "A", "s", "1S", "AX", "ZZZ", "\u{FE0F}T\u{2664}",
    "\u{212A}♠", "\u{212A}s", "A\u{17F}", "K\u{17F}", "\u{FF21}S", "\u{FF21}\u{FF33}", "\u{1D400}S", "\u{0410}S", "\u{041A}\u{2660}", "Ａ♠", "ａｓ",
    "\u{01F0}s", "\u{1E97}h", "\u{1E9A}\u{2660}", "A\u{1E96}", "A\u{DF}", "K\u{FB05}", "Q\u{FB06}",
];

/// Tails appended to a card spelling; by C12 the token is still that card.
pub const TAILS: [&str; 10] = ["", "x", "♠", "0", "ss", "!", "-highlighted", "_0123456789abcdef0123456789abcdef", "♠♥♦♣♤♡♢♧♠♥♦♣♤♡♢♧♠♥♦♣", "………………………………………………………………………………………………………………………………………………………………………………………………………………………………………………………………………………………………………………………………………………"];

/// Characters beyond the hand-picked tables, so that the text alphabet is not a closed list of
/// "interesting" strings: every ASCII character that is not whitespace (NUL and the other control
/// characters, DEL, all punctuation, digits and letters) and a selection of non-ASCII ones that are
/// not White_Space either (C1 controls, soft hyphen, combining mark, zero-width and bidi marks,
/// word joiner, BOM, replacement character, variation selector, private use, the control picture for NUL,
/// blank-looking letters; deliberately NOT a playing-card code point, which a parser might one day
/// accept on purpose — see JUNK, the last scalar value).
const EXTRA_CHARS: [char; 26] = [
    '\u{80}', '\u{84}', '\u{86}', '\u{9F}', '\u{A1}', '\u{AD}', '\u{300}', '\u{61C}', '\u{180E}', '\u{200B}', '\u{200C}', '\u{200D}', '\u{200E}', '\u{200F}', '\u{2060}', '\u{FEFF}', '\u{FFFD}',
    '\u{FE0F}', '\u{E000}', '\u{2400}', '\u{10FFFF}', '\u{2800}', '\u{3164}', '\u{FFA0}', '\u{1D159}', '\u{E0020}',
];
pub const EXT_CHARS: usize = 122 + 26;
pub fn ext_char(i: usize) -> char {
    let i = i % EXT_CHARS;
    if i < 122 {
        // the i-th ASCII character that is not whitespace
        (0u8..128).filter(|b| !matches!(b, 9..=13 | 32)).nth(i).unwrap() as char
    } else {
        EXTRA_CHARS[i - 122]
    }
}
/// Tail for code `t`: the entries of `TAILS`, then one extended character, then two.
pub fn tail_str(t: u8) -> String {
    let t = t as usize;
    if t == 255 {
        // one very long tail: the next token starts beyond 64 KiB (a few tokens, so that a
        // failing text stays cheap to minimise)
        "x".repeat(70_000)
    } else if t < TAILS.len() {
        TAILS[t].to_string()
    } else if t < TAILS.len() + EXT_CHARS {
        ext_char(t - TAILS.len()).to_string()
    } else {
        let k = t - TAILS.len() - EXT_CHARS;
        [ext_char(k), ext_char(k * 7 + 1)].iter().collect()
    }
}
/// Junk token for code `j`: the entries of `JUNK`, then a single extended character (one
/// character is never a card, whatever it is).
pub fn junk_str(j: u8) -> String {
    let j = j as usize % JUNK_CODES;
    if j < JUNK.len() {
        JUNK[j].to_string()
    } else {
        ext_char(j - JUNK.len()).to_string()
    }
}
pub const JUNK_CODES: usize = 28 + EXT_CHARS;

/// Every character with the Unicode White_Space property (what Rust's `char::is_whitespace` /
/// `split_whitespace` mean by whitespace) occurs as a separator. Entries 0..7 consist of ASCII
/// whitespace only (space, two spaces, TAB, LF, " \t ", CR LF, FF, lone CR); entries 8.. are the
/// rest: VT, NEL, no-break space, ogham space mark, U+2000..U+200A, line and paragraph separator,
/// narrow no-break space, medium mathematical space, ideographic space.
pub const SEPARATORS: [&str; 28] = [
    " ", "  ", "\t", "\n", " \t ", "\r\n", "\u{000C}", "\r",
    "\u{000B}", "\u{0085}", "\u{00A0}", "\u{1680}", "\u{2000}", "\u{2001}", "\u{2002}", "\u{2003}", "\u{2004}", "\u{2005}", "\u{2006}", "\u{2007}", "\u{2008}", "\u{2009}", "\u{200A}",
    "\u{2028}", "\u{2029}", "\u{202F}", "\u{205F}", "\u{3000}",
];
pub const ASCII_SEPARATORS: usize = 8;

/// The 25 White_Space characters, one by one (ASCII first).
pub const WS_CHARS: [char; 25] = [
    ' ', '\t', '\n', '\u{000B}', '\u{000C}', '\r', '\u{0085}', '\u{00A0}', '\u{1680}', '\u{2000}', '\u{2001}', '\u{2002}', '\u{2003}', '\u{2004}', '\u{2005}', '\u{2006}', '\u{2007}', '\u{2008}', '\u{2009}', '\u{200A}',
    '\u{2028}', '\u{2029}', '\u{202F}', '\u{205F}', '\u{3000}',
];
pub const SEPARATOR_RUN_STYLES: usize = 9;

/// The whitespace put in gap `pos` of a text for separator code `v`: codes below 28 are the
/// entries of `SEPARATORS`; higher codes are *runs* of two to five whitespace characters in which
/// every White_Space character occurs in every position — first, last, in the middle, next to
/// ASCII whitespace, next to itself. Code 28 + 25*style + a: `a` picks one character, the gap
/// position picks its partner, `style` the arrangement.
pub fn separator(v: u8, pos: usize) -> String {
    let v = v as usize;
    if v < SEPARATORS.len() {
        return SEPARATORS[v].to_string();
    }
    let a = WS_CHARS[(v - SEPARATORS.len()) % 25];
    let b = WS_CHARS[pos % 25];
    let c = WS_CHARS[(pos * 7 + 3) % 25];
    let run: Vec<char> = match ((v - SEPARATORS.len()) / 25) % SEPARATOR_RUN_STYLES {
        0 => vec![a, b],
        1 => vec![b, a],
        2 => vec![a, a],
        3 => vec![' ', a],
        4 => vec![a, ' '],
        5 => vec!['\n', a, '\n'],
        6 => vec![a, b, c],
        7 => vec![' ', ' ', a, b, ' '],
        _ => vec!['\r', '\n', '\r', '\n', a],
    };
    run.into_iter().collect()
}

#[cfg(test)]
mod tests {
    use super::*;

    #[test]
    fn layout_examples_from_the_documentation() {
        // README / lib.rs doc examples, typed in by hand (decimal, as documented).
        assert_eq!(card_word(0), 268_471_337); // A♠
        assert_eq!(card_word(12), 98_306); // 2♠
        assert_eq!(card_word(13), 268_454_953); // A♥
        assert_eq!(card_word(51), 69_634); // 2♣
        assert_eq!(card_word(39 + 1), 134_224_677); // K♣
        assert_eq!(card_bit(0), 1 << 51);
        assert_eq!(card_bit(51), 1);
        assert_eq!(spelling(4, 8), "0♠");
        assert_eq!(spelling(0, 0), "A♠");
        assert_eq!(spelling(51, 7), "2c");
    }

    #[test]
    fn junk_and_aliases_do_not_start_with_rank_then_suit() {
        let ranks: Vec<char> = RANK_UPPER.iter().chain(RANK_LOWER.iter()).copied().chain(['0']).collect();
        let suits: Vec<char> = SUIT_SPELL.iter().flatten().copied().collect();
        let is_card = |t: &str| {
            let mut c = t.chars();
            match (c.next(), c.next()) {
                (Some(a), Some(b)) => ranks.contains(&a) && suits.contains(&b),
                _ => false,
            }
        };
        for j in JUNK {
            assert!(!is_card(j), "junk token {:?} is a card by the documented rule", j);
            assert!(!j.chars().any(char::is_whitespace), "junk token {:?} contains whitespace", j);
        }
        for i in 0..52 {
            for sp in 0..spellings(i) {
                assert!(is_card(&spelling(i, sp)));
                for mode in 0..12 {
                    let a = alias_spelling(i, sp, mode);
                    assert!(!is_card(&a), "alias {:?} is a card", a);
                    assert!(!a.chars().any(char::is_whitespace));
                }
            }
        }
    }

    #[test]
    fn words_are_distinct() {
        let mut w: Vec<u32> = (0..52).map(card_word).collect();
        w.sort();
        w.dedup();
        assert_eq!(w.len(), 52);
    }
}

/// Characters that are not a rank or suit symbol themselves but whose upper- or lower-case mapping
/// *begins* with one (one-to-one like KELVIN SIGN -> k and LONG S -> S, and one-to-many like
/// U+01F0 -> "J" + caron, U+1E97 -> "T" + diaeresis, U+1E9A -> "A" + modifier, sharp s -> "SS"),
/// computed from the standard library's own case tables: (look-alike, the symbol it folds to).
pub fn fold_aliases() -> &'static Vec<(char, char)> {
    use std::sync::OnceLock;
    static CELL: OnceLock<Vec<(char, char)>> = OnceLock::new();
    CELL.get_or_init(|| {
        let mut symbols: Vec<char> = RANK_UPPER.iter().chain(RANK_LOWER.iter()).copied().chain(['0']).collect();
        symbols.extend(SUIT_SPELL.iter().flatten().copied());
        let mut out = Vec::new();
        for cp in 0x80u32..0x11_0000 {
            let Some(c) = char::from_u32(cp) else { continue };
            if symbols.contains(&c) || c.is_whitespace() {
                continue;
            }
            for f in [c.to_uppercase().next(), c.to_lowercase().next()].into_iter().flatten() {
                if f != c && symbols.contains(&f) {
                    out.push((c, f));
                }
            }
        }
        out
    })
}

/// A non-card token derived from a card spelling by moving one or both of its two leading
/// characters to a code point that agrees with the original only in its low 16 bits (modes 0-2)
/// or low 8 bits (modes 3-5). Code that narrows `char` before comparing confuses them.
pub fn alias_spelling(deck_index: usize, which: usize, mode: usize) -> String {
    let sp = spelling(deck_index, which);
    let mut cs: Vec<char> = sp.chars().collect();
    if mode % 12 >= 8 {
        // modes 8..11: a numeric or bit-mask near-miss of the first / second character (code point
        // +-1, +-2, +-3, +-4, +-8, +-16, +-32, or one of its low seven bits flipped): decoding by
        // range or by masking instead of by listing the symbols confuses these
        let pos = (mode % 12 - 8) % 2;
        let c = cs[pos] as u32;
        let mut cands: Vec<char> = Vec::new();
        for d in [1i64, -1, 2, -2, 3, -3, 4, -4, 8, -8, 16, -16, 32, -32] {
            if let Some(x) = u32::try_from(c as i64 + d).ok().and_then(char::from_u32) {
                cands.push(x);
            }
        }
        for b in 0..7 {
            if let Some(x) = char::from_u32(c ^ (1 << b)) {
                cands.push(x);
            }
        }
        let ranks: Vec<char> = RANK_UPPER.iter().chain(RANK_LOWER.iter()).copied().chain(['0']).collect();
        let suits: Vec<char> = SUIT_SPELL.iter().flatten().copied().collect();
        cands.retain(|x| !x.is_whitespace() && if pos == 0 { !ranks.contains(x) } else { !suits.contains(x) });
        if !cands.is_empty() {
            let pick = if mode % 12 >= 10 { (deck_index * 7 + which * 3 + 1) % cands.len() } else { (deck_index + which) % cands.len() };
            cs[pos] = cands[pick];
            return cs.into_iter().collect();
        }
    }
    if mode % 12 >= 6 && mode % 12 < 8 {
        // modes 6, 7: the first / second character replaced by a case-folding look-alike of it
        // (falls through to the narrowing aliases when the character has none)
        let pos = mode % 12 - 6;
        let cands: Vec<char> = fold_aliases().iter().filter(|(_, f)| f.eq_ignore_ascii_case(&cs[pos]) || *f == cs[pos]).map(|(c, _)| *c).collect();
        if !cands.is_empty() {
            cs[pos] = cands[(deck_index + which) % cands.len()];
            return cs.into_iter().collect();
        }
    }
    let (first, second, delta) = match mode % 6 {
        0 => (true, false, 0x1_0000u32),
        1 => (false, true, 0x1_0000),
        2 => (true, true, 0x1_0000),
        3 => (true, false, 0x100),
        4 => (false, true, 0x100),
        _ => (true, true, 0x100),
    };
    let shift = |c: char| char::from_u32(c as u32 + delta).unwrap_or('\u{FFFD}');
    if first {
        cs[0] = shift(cs[0]);
    }
    if second {
        cs[1] = shift(cs[1]);
    }
    cs.into_iter().collect()
}
