//! Runs one property under one build profile: directed scenarios, the seeded
//! batch, violation handling (minimise, write replay file, re-run it in a fresh
//! process, match against known findings), and the per-profile report that the
//! `check` subcommand merges into the evidence file.

use crate::json::{self, J};
use crate::sim::{lane_start, minimise, regenerate, run_batch, run_lane_context, run_one, BatchCfg, Obs, Outcome, World, MINIMISE_BUDGET};
use crate::rng::{fold, FNV_OFFSET};
use std::path::{Path, PathBuf};
use std::time::Instant;

pub struct RunCfg {
    pub root: PathBuf,
    pub profile: String,
    pub seed: u64,
    pub runs: u64,
    pub workers: usize,
    pub values_runs: u64,
    pub dump_digests: Option<PathBuf>,
    pub max_reported: usize,
}

pub struct Report {
    pub json: J,
    /// 0 held, 1 violation, 2 harness trouble
    pub exit: i32,
}

#[derive(Clone)]
pub struct Known {
    pub status: String,
    pub property: String,
    pub class: String,
    pub text: String,
}

pub fn load_known(root: &Path) -> Vec<Known> {
    let mut out = Vec::new();
    let text = std::fs::read_to_string(root.join("known_findings.txt")).unwrap_or_default();
    for line in text.lines() {
        let line = line.trim();
        if line.is_empty() || line.starts_with('#') {
            continue;
        }
        let (status, rest) = match line.split_once(':') {
            Some((s, r)) => (s.trim().to_string(), r.trim().to_string()),
            None => continue,
        };
        let mut property = String::new();
        let mut class = String::new();
        for tok in rest.split_whitespace() {
            if let Some(p) = tok.strip_prefix("property=") {
                property = p.to_string();
            } else if let Some(c) = tok.strip_prefix("class=") {
                class = c.to_string();
            }
        }
        out.push(Known { status, property, class, text: rest });
    }
    out
}

fn ops_json<W: World>(ops: &[W::Op]) -> J {
    J::Arr(ops.iter().map(|o| W::op_to_json(o)).collect())
}

fn traced<W: World>(ops: &[W::Op]) -> (Outcome, Vec<String>) {
    let mut obs = Obs::for_world::<W>();
    obs.trace = Some(Vec::new());
    obs.detail = true;
    let out = run_one::<W>(ops, &mut obs);
    (out, obs.trace.take().unwrap_or_default())
}

/// What a fresh process reported for a replay: Some((class, step, digest)) when it violated.
type Fresh = Option<(String, usize, u64)>;

fn parse_replay_stdout(out: &std::process::Output) -> Result<Fresh, String> {
    let so = String::from_utf8_lossy(&out.stdout);
    for l in so.lines() {
        if let Some(rest) = l.trim().strip_prefix("REPLAY-RESULT ") {
            if rest.starts_with("no-violation") {
                return Ok(None);
            }
            let mut class = String::new();
            let mut step = 0usize;
            let mut digest = 0u64;
            for tok in rest.split_whitespace() {
                if let Some(c) = tok.strip_prefix("class=") {
                    class = c.to_string();
                } else if let Some(x) = tok.strip_prefix("step=") {
                    step = x.parse().unwrap_or(0);
                } else if let Some(x) = tok.strip_prefix("digest=") {
                    digest = json::parse_hex(x).unwrap_or(0);
                }
            }
            return Ok(Some((class, step, digest)));
        }
    }
    Err(format!("replay process printed no result line (exit {:?}): {}", out.status.code(), String::from_utf8_lossy(&out.stderr).trim()))
}

/// Execute one history alone in a fresh process.
fn fresh_exec<W: World>(ops: &[W::Op], tmp: &Path) -> Result<Fresh, String> {
    let file = J::obj().with("format", J::str("ckc-sim replay v1")).with("mode", J::str("history")).with("property_id", J::str(W::id())).with("log_on", J::Bool(crate::sim::log_on())).with("ops", ops_json::<W>(ops));
    std::fs::write(tmp, file.compact()).map_err(|e| format!("{}: {}", tmp.display(), e))?;
    let exe = std::env::current_exe().map_err(|e| e.to_string())?;
    let out = crate::sim::child_command(&exe).arg("replay").arg(tmp).arg("--machine").output().map_err(|e| format!("cannot spawn replay: {}", e))?;
    parse_replay_stdout(&out)
}

/// Re-create a context in a fresh process: seeded runs `from..=to` of the lane of `to`, or
/// directed scenarios `from..=to`; report what the last one did.
fn fresh_context<W: World>(kind: &str, seed: u64, lanes: u64, from: u64, to: u64) -> Result<Fresh, String> {
    let exe = std::env::current_exe().map_err(|e| e.to_string())?;
    let mut cmd = crate::sim::child_command(&exe);
    cmd.arg("context-replay").arg("--prop").arg(W::id()).arg("--kind").arg(kind).arg("--seed").arg(seed.to_string()).arg("--lanes").arg(lanes.to_string()).arg("--from").arg(from.to_string()).arg("--to").arg(to.to_string()).arg("--machine");
    crate::sim::config_args(&mut cmd);
    let out = cmd.output().map_err(|e| format!("cannot spawn context-replay: {}", e))?;
    parse_replay_stdout(&out)
}

/// Used by `replay` and `context-replay`: run a context in this process.
pub fn run_context<W: World>(kind: &str, seed: u64, lanes: u64, from: u64, to: u64, trace: bool) -> (Outcome, Vec<String>, Vec<W::Op>) {
    let mut obs = Obs::for_world::<W>();
    if trace {
        obs.trace = Some(Vec::new());
    }
    obs.detail = true;
    if kind == "directed" {
        let directed = W::directed();
        let mut scratch = Obs::for_world::<W>();
        let to = (to as usize).min(directed.len().saturating_sub(1));
        for d in (from as usize)..to {
            let _ = run_one::<W>(&directed[d].1, &mut scratch);
        }
        let out = run_one::<W>(&directed[to].1, &mut obs);
        (out, obs.trace.take().unwrap_or_default(), directed[to].1.clone())
    } else {
        let out = run_lane_context::<W>(seed, lanes, from, to, &mut obs);
        (out, obs.trace.take().unwrap_or_default(), regenerate::<W>(seed, to))
    }
}

pub fn run_property<W: World>(cfg: &RunCfg) -> Report {
    let t0 = Instant::now();
    let mut harness_errors: Vec<String> = Vec::new();
    let mut lines: Vec<String> = Vec::new();
    let scratch = cfg.root.join("sim/target/run");
    let _ = std::fs::create_dir_all(&scratch);
    let tmp = scratch.join(format!("candidate-{}-{}.json", W::id(), std::process::id()));

    // ---- directed scenarios, through the same interpreter and invariants, in this (fresh) process
    let directed = W::directed();
    let mut dobs = Obs::for_world::<W>();
    let mut ddigest = FNV_OFFSET;
    let mut dsteps = 0u64;
    let mut dfails: Vec<(usize, String)> = Vec::new();
    for (i, (_name, ops)) in directed.iter().enumerate() {
        let out = run_one::<W>(ops, &mut dobs);
        ddigest = fold(ddigest, out.digest);
        dsteps += out.steps as u64;
        if let Some(v) = out.violation {
            dfails.push((i, v.class));
        }
    }
    let directed_wall = t0.elapsed().as_secs_f64();

    // ---- seeded runs, in lane processes
    let t1 = Instant::now();
    let batch = match run_batch::<W>(&BatchCfg { prop: W::id().to_string(), base_seed: cfg.seed, runs: cfg.runs, workers: cfg.workers, values_runs: cfg.values_runs, keep_run_digests: cfg.dump_digests.is_some(), scratch: scratch.clone() }) {
        Ok(b) => b,
        Err(e) => {
            let j = J::obj().with("property_id", J::str(W::id())).with("harness_errors", J::Arr(vec![J::Str(format!("seeded batch failed: {}", e))])).with("lines", J::Arr(vec![]));
            return Report { json: j, exit: 2 };
        }
    };
    let seeded_wall = t1.elapsed().as_secs_f64();
    if let Some(p) = &cfg.dump_digests {
        let mut bytes = Vec::with_capacity(batch.run_digests.len() * 8);
        for d in &batch.run_digests {
            bytes.extend_from_slice(&d.to_le_bytes());
        }
        if let Err(e) = std::fs::write(p, bytes) {
            harness_errors.push(format!("cannot write digests to {}: {}", p.display(), e));
        }
    }

    // ---- violations: one representative per class, lowest index; directed first
    struct Case<O> {
        class: String,
        origin: String,
        run: Option<u64>,
        directed_index: Option<usize>,
        count: u64,
        ops: Vec<O>,
        first_seeded: Option<u64>,
    }
    let mut cases: Vec<Case<W::Op>> = Vec::new();
    for (i, class) in &dfails {
        if let Some(c) = cases.iter_mut().find(|c| &c.class == class) {
            c.count += 1;
        } else {
            cases.push(Case { class: class.clone(), origin: format!("directed scenario '{}'", directed[*i].0), run: None, directed_index: Some(*i), count: 1, ops: directed[*i].1.clone(), first_seeded: None });
        }
    }
    for (class, (i, count)) in &batch.fail_classes {
        if let Some(c) = cases.iter_mut().find(|c| &c.class == class) {
            c.count += *count;
            c.first_seeded = Some(*i);
        } else {
            cases.push(Case { class: class.clone(), origin: format!("seeded run {} of VERIF_SEED {}", i, cfg.seed), run: Some(*i), directed_index: None, count: *count, ops: regenerate::<W>(cfg.seed, *i), first_seeded: Some(*i) });
        }
    }
    let known = load_known(&cfg.root);
    let mut vjson: Vec<J> = Vec::new();
    let mut new_violations = 0usize;
    let mut known_hits = 0usize;
    let replays_dir = cfg.root.join("replays");
    for case in cases.iter() {
        if case.class.starts_with("harness-panic") {
            harness_errors.push(format!("the harness itself panicked ({}; {}); this is a bug in /verif, not a finding about the crate", case.class, case.origin));
            continue;
        }
        if let Some(k) = known.iter().find(|k| k.status == "open" && k.property == W::id() && k.class == case.class) {
            known_hits += 1;
            lines.push(format!("KNOWN-FINDING: {}", k.text));
            vjson.push(J::obj().with("class", J::str(&case.class)).with("known_finding", J::Bool(true)).with("failing_runs_seen", J::u(case.count)));
            continue;
        }
        new_violations += 1;
        if new_violations > cfg.max_reported {
            vjson.push(J::obj().with("class", J::str(&case.class)).with("origin", J::str(&case.origin)).with("failing_runs_seen", J::u(case.count)).with("note", J::str("not minimised: report cap reached")));
            continue;
        }
        let original_len = case.ops.len();
        let same_class = |f: &Fresh| f.as_ref().map(|x| x.0 == case.class).unwrap_or(false);
        // 1. does the history fail on its own, in a fresh process?
        let isolated = match fresh_exec::<W>(&case.ops, &tmp) {
            Ok(f) => f,
            Err(e) => {
                harness_errors.push(e);
                continue;
            }
        };
        let fname = match case.run {
            Some(i) => format!("{}-seed{}-run{}-{}.json", W::id(), cfg.seed, i, cfg.profile),
            None => format!("{}-directed-{}-{}.json", W::id(), sanitize(&case.class), cfg.profile),
        };
        let path = replays_dir.join(fname);
        let mut file = J::obj()
            .with("format", J::str("ckc-sim replay v1"))
            .with("property_id", J::str(W::id()))
            .with("verif_seed", J::u(cfg.seed))
            .with("run_index", case.run.map(J::u).unwrap_or(J::Null))
            .with("origin", J::str(&case.origin))
            .with("profile", J::str(&cfg.profile))
            .with("log_on", J::Bool(crate::sim::log_on()))
            .with("original_history_len", J::u(original_len as u64))
            .with("schedule_and_faults", J::str("single owner, calls in listed order; no fault kinds exist for this crate (DESIGN 1), so the fault trace is empty"));
        let (v_class, v_step, v_digest, v_detail, min_len);
        if same_class(&isolated) {
            // 2a. minimise: in this process first; if the result does not hold up in a fresh
            // process (the tree keeps process-wide state), once more with a fresh process per candidate
            let mut fast = |cand: &[W::Op]| -> Option<usize> {
                let mut obs = Obs::for_world::<W>();
                run_one::<W>(cand, &mut obs).violation.filter(|v| v.class == case.class).map(|v| v.step)
            };
            let mut min = minimise::<W>(case.ops.clone(), &mut fast, MINIMISE_BUDGET);
            let mut how = "in-process";
            let ok = matches!(fresh_exec::<W>(&min.ops, &tmp), Ok(ref f) if same_class(f));
            if !ok {
                let mut slow = |cand: &[W::Op]| -> Option<usize> {
                    match fresh_exec::<W>(cand, &tmp) {
                        Ok(Some((c, step, _))) if c == case.class => Some(step),
                        _ => None,
                    }
                };
                min = minimise::<W>(case.ops.clone(), &mut slow, 1500);
                how = "fresh process per candidate (the tree keeps state between calls)";
            }
            let (out, trace) = traced::<W>(&min.ops);
            // what is recorded is what a fresh process observes
            let fresh = match fresh_exec::<W>(&min.ops, &tmp) {
                Ok(Some(f)) if f.0 == case.class => f,
                _ => {
                    harness_errors.push(format!("minimised history for class {} does not fail in a fresh process", case.class));
                    continue;
                }
            };
            v_class = fresh.0;
            v_step = fresh.1;
            v_digest = fresh.2;
            v_detail = out.violation.as_ref().map(|v| v.detail.clone()).unwrap_or_else(|| "(detail only visible in a fresh process; run the replay command)".into());
            min_len = min.ops.len();
            file.set("mode", J::str("history"));
            file.set("minimised_history_len", J::u(min.ops.len() as u64));
            file.set("minimiser", J::Str(format!("{} executions, {}", min.executions, how)));
            file.set("ops", ops_json::<W>(&min.ops));
            file.set("trace", J::Arr(trace.iter().map(|s| J::str(s)).collect()));
        } else {
            // 2b. it fails only in the context it was found in: re-create that context
            let (kind, start, to) = match (case.run, case.directed_index) {
                (Some(i), _) => ("seeded", lane_start(i, batch.lanes), i),
                (None, Some(d)) => ("directed", 0u64, d as u64),
                _ => continue,
            };
            match fresh_context::<W>(kind, cfg.seed, batch.lanes, start, to) {
                Ok(ref f) if same_class(f) => {}
                Ok(_) => {
                    harness_errors.push(format!("class {} ({}) fails neither alone nor in its re-created context: the tree behaves non-deterministically", case.class, case.origin));
                    continue;
                }
                Err(e) => {
                    harness_errors.push(e);
                    continue;
                }
            }
            // shorten the context: latest starting point that still fails (bisection, then verified)
            let (mut lo, mut hi) = (start, to); // fails from lo; unknown above
            let mut probes = 0;
            while lo < hi && probes < 24 {
                let mid = lo + (hi - lo + 1) / 2;
                probes += 1;
                match fresh_context::<W>(kind, cfg.seed, batch.lanes, mid, to) {
                    Ok(ref f) if same_class(f) => lo = mid,
                    _ => hi = mid - 1,
                }
            }
            let fresh = match fresh_context::<W>(kind, cfg.seed, batch.lanes, lo, to) {
                Ok(Some(f)) if f.0 == case.class => f,
                _ => {
                    harness_errors.push(format!("shortened context for class {} did not reproduce", case.class));
                    continue;
                }
            };
            v_class = fresh.0;
            v_step = fresh.1;
            v_digest = fresh.2;
            v_detail = format!("fails only after other histories have run in the same process (process-wide state in the crate): {} histories of context, then the listed one", to - lo);
            min_len = case.ops.len();
            file.set("mode", J::str("context"));
            file.set("context", J::obj().with("kind", J::str(kind)).with("lanes", J::u(batch.lanes)).with("from", J::u(lo)).with("to", J::u(to)).with("depth", J::u(crate::sim::depth() as u64)).with("meaning", J::str("seeded: the runs of the lane of `to` with index in from..=to, in lane order; directed: scenarios from..=to; all in one fresh process, the last one must fail")));
            file.set("ops", ops_json::<W>(&case.ops));
        }
        file.set("expected", J::obj().with("class", J::str(&v_class)).with("step", J::u(v_step as u64)).with("digest", J::hex64(v_digest)).with("detail", J::str(&v_detail)));
        if let Err(e) = std::fs::create_dir_all(&replays_dir).and_then(|_| std::fs::write(&path, file.pretty())) {
            harness_errors.push(format!("cannot write replay file {}: {}", path.display(), e));
            continue;
        }
        // the file itself, in a fresh process, must reproduce it exactly
        let reproduced = match std::env::current_exe().and_then(|exe| crate::sim::child_command(&exe).arg("replay").arg(&path).arg("--machine").output()) {
            Ok(o) => matches!(parse_replay_stdout(&o), Ok(Some((ref c, st, d))) if *c == v_class && st == v_step && d == v_digest) && o.status.code() == Some(1),
            Err(e) => {
                harness_errors.push(format!("cannot spawn replay: {}", e));
                false
            }
        };
        if !reproduced {
            harness_errors.push(format!("replay file {} did not reproduce class {} in a fresh process", path.display(), v_class));
            continue;
        }
        let fs = case.first_seeded.map(|i| i.to_string()).unwrap_or_else(|| "none".into());
        lines.push(format!("VIOLATION property={} replay={}", W::id(), path.display()));
        lines.push(format!("  class={} origin={} first_failing_seeded_run={} failing_runs_seen={} minimised {} -> {} ops: {}", v_class, case.origin, fs, case.count, original_len, min_len, v_detail));
        vjson.push(
            J::obj()
                .with("class", J::str(&v_class))
                .with("origin", J::str(&case.origin))
                .with("failing_runs_seen", J::u(case.count))
                .with("first_failing_seeded_run", case.first_seeded.map(J::u).unwrap_or(J::Null))
                .with("replay", J::str(&path.display().to_string()))
                .with("minimised_ops", J::u(min_len as u64))
                .with("detail", J::str(&v_detail)),
        );
    }
    let _ = std::fs::remove_file(&tmp);

    // ---- samples: the first seeded histories, and one directed scenario
    let mut samples: Vec<J> = Vec::new();
    for i in 0..cfg.runs.min(3) {
        let ops = regenerate::<W>(cfg.seed, i);
        let (out, trace) = traced::<W>(&ops);
        samples.push(
            J::obj()
                .with("kind", J::str("seeded history"))
                .with("run_index", J::u(i))
                .with("ops", ops_json::<W>(&ops))
                .with("event_log", J::Arr(trace.iter().take(60).map(|s| J::str(s)).collect()))
                .with("digest", J::hex64(out.digest)),
        );
    }
    if let Some((name, ops)) = directed.iter().find(|(_, o)| o.len() >= 3 && o.len() <= 12).or(directed.first()) {
        let (out, trace) = traced::<W>(ops);
        samples.push(J::obj().with("kind", J::str("directed scenario")).with("name", J::str(name)).with("ops", ops_json::<W>(ops)).with("event_log", J::Arr(trace.iter().take(60).map(|s| J::str(s)).collect())).with("digest", J::hex64(out.digest)));
    }

    // ---- probes and reach
    let names = W::probe_names();
    let mut probes = J::obj();
    let mut probes_directed = J::obj();
    let mut zero: Vec<J> = Vec::new();
    for (i, n) in names.iter().enumerate() {
        probes.set(n, J::u(batch.obs.probes[i]));
        probes_directed.set(n, J::u(dobs.probes[i]));
        if batch.obs.probes[i] + dobs.probes[i] == 0 {
            zero.push(J::str(n));
        }
    }
    let nk = W::op_kinds().len();
    let bigrams_seen = batch.obs.bigrams.iter().filter(|c| **c > 0).count() as u64;
    let mut kinds = J::obj();
    for (k, name) in W::op_kinds().iter().enumerate() {
        let c: u64 = (0..nk).map(|a| batch.obs.bigrams[a * nk + k]).sum();
        kinds.set(name, J::u(c));
    }
    let mut all_cells = Obs::for_world::<W>();
    all_cells.merge(&batch.obs);
    all_cells.merge(&dobs);

    let exit = if !harness_errors.is_empty() {
        2
    } else if new_violations > 0 {
        1
    } else {
        0
    };
    let wall = t0.elapsed().as_secs_f64();
    let j = J::obj()
        .with("property_id", J::str(W::id()))
        .with("profile", J::str(&cfg.profile))
        .with("seed", J::u(cfg.seed))
        .with("workers", J::u(cfg.workers as u64))
        .with("seeded_runs", J::u(batch.runs))
        .with("seeded_steps", J::u(batch.steps))
        .with("seeded_digest", J::hex64(batch.digest))
        .with("seeded_wall_s", J::Float(seeded_wall))
        .with("directed_runs", J::u(directed.len() as u64))
        .with("directed_steps", J::u(dsteps))
        .with("directed_digest", J::hex64(ddigest))
        .with("directed_wall_s", J::Float(directed_wall))
        .with("invariant_evaluations", J::u(batch.obs.inv_checks + dobs.inv_checks))
        .with("nontrivial_runs", J::u(batch.nontrivial_runs))
        .with("distinct_nontrivial", J::u(batch.distinct_nontrivial))
        .with("distinct_world_shapes", J::u(batch.distinct_shapes))
        .with("distinct_values", J::u(batch.distinct_values))
        .with("values_sampled_runs", J::u(batch.values_sampled_runs))
        .with("cells_reached", J::u(all_cells.cells_set()))
        .with("cells_possible", J::u(W::cells_reachable().unwrap_or(W::cell_bits() as u64)))
        .with("cells_possible_is_exact", J::Bool(W::cells_reachable().is_some()))
        .with("op_bigrams_seen", J::u(bigrams_seen))
        .with("op_bigrams_possible", J::u((nk * nk) as u64))
        .with("ops_by_kind_after_first", kinds)
        .with("probes_seeded", probes)
        .with("probes_directed", probes_directed)
        .with("probes_at_zero", J::Arr(zero))
        .with("failing_runs", J::u(batch.fail_count + dfails.len() as u64))
        .with("new_violations", J::u(new_violations as u64))
        .with("known_findings_matched", J::u(known_hits as u64))
        .with("violations", J::Arr(vjson))
        .with("harness_errors", J::Arr(harness_errors.iter().map(|s| J::str(s)).collect()))
        .with("lines", J::Arr(lines.iter().map(|s| J::str(s)).collect()))
        .with("samples", J::Arr(samples))
        .with("wall_s", J::Float(wall));
    Report { json: j, exit }
}

fn sanitize(s: &str) -> String {
    s.chars().map(|c| if c.is_ascii_alphanumeric() || c == '-' || c == '_' { c } else { '_' }).collect()
}

/// Re-execute a replay file. Returns the process exit code.
pub fn replay<W: World>(file: &J, path: &Path, machine: bool) -> i32 {
    let ops_j = match file.get("ops").and_then(|x| x.as_arr()) {
        Some(a) => a,
        None => {
            eprintln!("replay file has no ops");
            return 2;
        }
    };
    let mut ops: Vec<W::Op> = Vec::new();
    for o in ops_j {
        match W::op_from_json(o) {
            Ok(op) => ops.push(op),
            Err(e) => {
                eprintln!("bad op in replay file: {}", e);
                return 2;
            }
        }
    }
    let (out, trace) = traced::<W>(&ops);
    if !machine {
        println!("replaying {} ({} operations, property {})", path.display(), ops.len(), W::id());
        for l in &trace {
            println!("{}", l);
        }
    }
    match out.violation {
        Some(v) => {
            println!("REPLAY-RESULT class={} step={} digest={:#018x}", v.class, v.step, out.digest);
            if !machine {
                let exp = file.get("expected");
                let same = exp.map(|e| e.get("class").and_then(|x| x.as_str()) == Some(v.class.as_str()) && e.get("step").and_then(|x| x.as_u64()) == Some(v.step as u64) && e.get("digest").and_then(|x| x.as_u64()) == Some(out.digest)).unwrap_or(false);
                println!("reproduces the recorded violation exactly (class, step, digest): {}", if same { "yes" } else { "no" });
                println!("detail: {}", v.detail);
                println!("VIOLATION property={} replay={}", W::id(), path.display());
            }
            1
        }
        None => {
            println!("REPLAY-RESULT no-violation digest={:#018x}", out.digest);
            0
        }
    }
}

pub fn read_json(path: &Path) -> Result<J, String> {
    let text = std::fs::read_to_string(path).map_err(|e| format!("{}: {}", path.display(), e))?;
    json::parse(&text).map_err(|e| format!("{}: {}", path.display(), e))
}

/// Harness self-test: a replay file must carry a history faithfully. For many seeded
/// histories, writing the operations to JSON text, parsing them back and executing
/// them must give the same event-log digest as executing the originals.
pub fn selftest<W: World>(seed: u64, runs: u64) -> Result<u64, String> {
    let mut checked = 0u64;
    for i in 0..runs {
        let ops = regenerate::<W>(seed, i);
        let mut o1 = Obs::for_world::<W>();
        let a = run_one::<W>(&ops, &mut o1);
        let text = ops_json::<W>(&ops).pretty();
        let back = json::parse(&text).map_err(|e| format!("{} run {}: {}", W::id(), i, e))?;
        let mut ops2: Vec<W::Op> = Vec::new();
        for j in back.as_arr().ok_or("not an array")? {
            ops2.push(W::op_from_json(j).map_err(|e| format!("{} run {}: {}", W::id(), i, e))?);
        }
        let mut o2 = Obs::for_world::<W>();
        let b = run_one::<W>(&ops2, &mut o2);
        if a.digest != b.digest || a.steps != b.steps || a.violation.is_some() != b.violation.is_some() {
            return Err(format!("{} run {}: digest {:#x} became {:#x} after a JSON round trip", W::id(), i, a.digest, b.digest));
        }
        checked += 1;
    }
    for (name, ops) in W::directed() {
        let mut o1 = Obs::for_world::<W>();
        let a = run_one::<W>(&ops, &mut o1);
        let back = json::parse(&ops_json::<W>(&ops).compact()).map_err(|e| format!("{} '{}': {}", W::id(), name, e))?;
        let mut ops2: Vec<W::Op> = Vec::new();
        for j in back.as_arr().ok_or("not an array")? {
            ops2.push(W::op_from_json(j).map_err(|e| format!("{} '{}': {}", W::id(), name, e))?);
        }
        let mut o2 = Obs::for_world::<W>();
        let b = run_one::<W>(&ops2, &mut o2);
        if a.digest != b.digest {
            return Err(format!("{} directed '{}': digest changed after a JSON round trip", W::id(), name));
        }
        checked += 1;
    }
    Ok(checked)
}
