//! C19 — hand containers store and return exactly the words put into them.
//!
//! World: a register file of live `Two`..`Seven` values from the real crate,
//! each shadowed by a plain array. After every operation every live register
//! is read back through every read path and compared with its array.

use crate::cardsref::card_word;
use crate::json::J;
use crate::rng::{fold, Rng, FNV_OFFSET};
use crate::sim::{at, Obs, Outcome, Violation, World};
use ckc_rs::cards::five::Five;
use ckc_rs::cards::four::Four;
use ckc_rs::cards::seven::Seven;
use ckc_rs::cards::six::Six;
use ckc_rs::cards::three::Three;
use ckc_rs::cards::two::Two;
use ckc_rs::cards::{HandRanker, HandValidator, Permutator};
use ckc_rs::Shifty;

pub const NREGS: usize = 8;
pub const MAX_LEN: usize = 48;

#[derive(Clone, Copy)]
pub enum Reg {
    Two(Two),
    Three(Three),
    Four(Four),
    Five(Five),
    Six(Six),
    Seven(Seven),
}

macro_rules! on_reg {
    ($reg:expr, $h:ident => $body:expr) => {
        match $reg {
            Reg::Two($h) => $body,
            Reg::Three($h) => $body,
            Reg::Four($h) => $body,
            Reg::Five($h) => $body,
            Reg::Six($h) => $body,
            Reg::Seven($h) => $body,
        }
    };
}

macro_rules! on_reg_map {
    ($reg:expr) => {
        match $reg {
            Reg::Two(h) => Reg::Two(h.clone()),
            Reg::Three(h) => Reg::Three(h.clone()),
            Reg::Four(h) => Reg::Four(h.clone()),
            Reg::Five(h) => Reg::Five(h.clone()),
            Reg::Six(h) => Reg::Six(h.clone()),
            Reg::Seven(h) => Reg::Seven(h.clone()),
        }
    };
}

pub const SIZE_NAMES: [&str; 8] = ["-", "-", "Two", "Three", "Four", "Five", "Six", "Seven"];

/// The array model of one register; `n == 0` means the register is empty.
#[derive(Clone, Copy, PartialEq, Debug)]
pub struct M {
    pub n: u8,
    pub w: [u32; 7],
}

impl M {
    pub const EMPTY: M = M { n: 0, w: [0; 7] };
    fn of(words: &[u32]) -> M {
        let mut w = [0u32; 7];
        w[..words.len()].copy_from_slice(words);
        M { n: words.len() as u8, w }
    }
    fn slice(&self) -> &[u32] {
        &self.w[..self.n as usize]
    }
}

pub const VIA_ARR: u8 = 0;
pub const VIA_REF: u8 = 1; // Two::from(&[u32; 2])
pub const VIA_NEWFN: u8 = 2; // Two::new, Five::new
pub const VIA_TUPLE: u8 = 3; // Three(words)

#[derive(Clone, PartialEq, Debug)]
pub enum Op {
    New { dst: u8, n: u8, via: u8, words: [u32; 7] },
    NewDefault { dst: u8, n: u8 },
    Set { r: u8, k: u8, w: u32 },
    Compose6 { dst: u8, one: u32, two: u8, three: u8 },
    Compose7 { dst: u8, two: u8, five: u8 },
    Select { dst: u8, src: u8, idx: [u8; 5] },
    CopyOut { dst: u8, src: u8 },
    SortInPlace { r: u8 },
    /// `dst = src.clone()`
    CloneOut { dst: u8, src: u8 },
    /// `dst.clone_from(&src)` when both hold the same size
    CloneFrom { dst: u8, src: u8 },
    /// some other public method of the container is called and its result ignored: ranking,
    /// validity, sorted copy, suit shift … — what users do between the calls C19 is about
    Env { r: u8, which: u8 },
    /// the caller stops looking: the next `n` operations are not followed by the read sweep of
    /// every register, so mutations follow one another with no read of any kind in between
    /// (the sweep that follows the last of them judges them all)
    Quiet { n: u8 },
    /// one slot of one register is read through one path (0 accessor, 1 to_arr, 2 iter) and
    /// judged: a single look, instead of the sweep that reads everything in a fixed order
    Peek { r: u8, k: u8, path: u8 },
}

pub const K_NEW: usize = 0;
pub const K_DEFAULT: usize = 1;
pub const K_SET: usize = 2;
pub const K_COMPOSE6: usize = 3;
pub const K_COMPOSE7: usize = 4;
pub const K_SELECT: usize = 5;
pub const K_COPY: usize = 6;
pub const K_SORT: usize = 7;
pub const K_CLONE: usize = 8;
pub const K_CLONE_FROM: usize = 9;
pub const K_ENV: usize = 10;
pub const K_QUIET: usize = 11;
pub const K_PEEK: usize = 12;
const KINDS: [&str; 13] = ["New", "NewDefault", "Set", "Compose6", "Compose7", "Select", "CopyOut", "SortInPlace", "CloneOut", "CloneFrom", "Env", "Quiet", "Peek"];

// ---- probes ---------------------------------------------------------------

const SET_OFF: [usize; 6] = [0, 2, 5, 9, 14, 20];
const P_SET: usize = 0; // 27
const P_NEW_ARR: usize = 27; // 6
const P_NEW_REF_TWO: usize = 33;
const P_NEW_FN_TWO: usize = 34;
const P_NEW_FN_FIVE: usize = 35;
const P_NEW_TUPLE_THREE: usize = 36;
const P_DEFAULT: usize = 37; // 6
const P_COMPOSE6: usize = 43;
const P_COMPOSE7: usize = 44;
const P_SELECT6: usize = 45;
const P_SELECT7: usize = 46;
const P_SELECT_REPEAT: usize = 47;
const P_COPY: usize = 48;
const P_SORT: usize = 49;
const P_SET_SAME: usize = 50;
const P_SET_NEIGHBOUR: usize = 51;
const P_SET_ZERO: usize = 52;
const P_SET_MAX: usize = 53;
const P_SET_CARD: usize = 54;
const P_SET_NONCARD: usize = 55;
const P_WRITE_AFTER_COPY: usize = 56;
const P_MUTATE_COMPOSE_SRC: usize = 57;
const P_NOOP: usize = 58;
const P_OVERWRITE_LIVE: usize = 59;
const P_SET_ALREADY_ELSEWHERE: usize = 60;
const P_NEW_WITH_DUPLICATES: usize = 61;
const P_NEW_SORTED_DESC: usize = 62;
const P_NEW_SORTED_ASC: usize = 63;
const P_ALPHA: usize = 64; // 5
const P_MIX: usize = 69; // 5
const P_NREGS: usize = 74; // 8
const P_LEN_S: usize = 82;
const P_LEN_M: usize = 83;
const P_LEN_L: usize = 84;
const P_SIZEMASK_ALL: usize = 85;
const P_SIZEMASK_SUBSET: usize = 86;
const P_SELECT_FROM_MUTATED: usize = 87;
const P_COMPOSE_FROM_MUTATED: usize = 88;
const P_LEN_XL: usize = 89;
const P_ALPHA_DECK: usize = 90;
const P_CLONE: usize = 91;
const P_CLONE_FROM: usize = 92;
const P_CLONE_FROM_PERMUTATION: usize = 93;
const P_ENV: usize = 94;
const P_ENV_PANICKED: usize = 95;
const P_ENV_RANKING: usize = 96;
const P_QUIET_STEP: usize = 97;
const P_PEEK: usize = 98;
const P_SET_UNREAD_OVERWRITE: usize = 99;
const P_SET_STALE_LAST_READ: usize = 100;
const P_QUIET_RUN_2PLUS: usize = 101;
const NPROBES: usize = 102;

fn probe_names() -> Vec<String> {
    let mut v = vec![String::new(); NPROBES];
    let acc = ["first", "second", "third", "forth", "fifth", "sixth", "seventh"];
    for n in 2..=7usize {
        for k in 0..n {
            v[P_SET + SET_OFF[n - 2] + k] = format!("setter_{}::set_{}", SIZE_NAMES[n], acc[k]);
        }
        v[P_NEW_ARR + n - 2] = format!("new_from_array_{}", SIZE_NAMES[n]);
        v[P_DEFAULT + n - 2] = format!("new_default_{}", SIZE_NAMES[n]);
    }
    v[P_NEW_REF_TWO] = "new_Two_from_array_ref".into();
    v[P_NEW_FN_TWO] = "new_Two::new".into();
    v[P_NEW_FN_FIVE] = "new_Five::new".into();
    v[P_NEW_TUPLE_THREE] = "new_Three_tuple_literal".into();
    v[P_COMPOSE6] = "compose_Six::from_1_and_2_and_3".into();
    v[P_COMPOSE7] = "compose_Seven::new".into();
    v[P_SELECT6] = "select_from_Six".into();
    v[P_SELECT7] = "select_from_Seven".into();
    v[P_SELECT_REPEAT] = "select_with_repeated_index".into();
    v[P_COPY] = "copy_out".into();
    v[P_SORT] = "sort_in_place_then_resync".into();
    v[P_SET_SAME] = "set_word_equal_to_current_content".into();
    v[P_SET_NEIGHBOUR] = "set_word_equal_to_neighbour_slot".into();
    v[P_SET_ZERO] = "set_blank_word".into();
    v[P_SET_MAX] = "set_word_0xffffffff".into();
    v[P_SET_CARD] = "set_real_card_word".into();
    v[P_SET_NONCARD] = "set_non_card_word".into();
    v[P_WRITE_AFTER_COPY] = "write_to_register_involved_in_copy".into();
    v[P_MUTATE_COMPOSE_SRC] = "write_to_register_used_as_compose_or_select_source".into();
    v[P_NOOP] = "op_not_applicable_noop".into();
    v[P_OVERWRITE_LIVE] = "constructor_overwrites_live_register".into();
    v[P_SET_ALREADY_ELSEWHERE] = "set_word_already_in_another_slot".into();
    v[P_NEW_WITH_DUPLICATES] = "new_from_words_with_duplicates".into();
    v[P_NEW_SORTED_DESC] = "new_from_descending_words".into();
    v[P_NEW_SORTED_ASC] = "new_from_ascending_words".into();
    let alpha = ["unique_tags", "cards_and_blank_repeating", "arbitrary_u32", "sorted_arrays", "mixed"];
    let mix = ["setter_heavy", "compose_heavy", "select_heavy", "balanced", "copy_heavy"];
    for i in 0..5 {
        v[P_ALPHA + i] = format!("swarm_alphabet_{}", alpha[i]);
        v[P_MIX + i] = format!("swarm_mix_{}", mix[i]);
    }
    for i in 0..8 {
        v[P_NREGS + i] = format!("swarm_registers_{}", i + 1);
    }
    v[P_LEN_S] = "swarm_history_len_1_3".into();
    v[P_LEN_M] = "swarm_history_len_4_12".into();
    v[P_LEN_L] = "swarm_history_len_13_48".into();
    v[P_LEN_XL] = "swarm_history_long_lived_200_plus_operations".into();
    v[P_ENV] = "environment_call_other_public_method".into();
    v[P_ENV_PANICKED] = "environment_call_panicked_and_was_ignored".into();
    v[P_ENV_RANKING] = "environment_call_ranking_of_a_five_six_or_seven".into();
    v[P_QUIET_STEP] = "operation_not_followed_by_any_read".into();
    v[P_PEEK] = "single_slot_read_through_one_path".into();
    v[P_SET_UNREAD_OVERWRITE] = "setter_on_register_replaced_wholesale_and_not_read_since".into();
    v[P_SET_STALE_LAST_READ] = "setter_writes_the_word_last_read_from_that_slot_which_no_longer_holds_it".into();
    v[P_QUIET_RUN_2PLUS] = "two_or_more_mutations_in_a_row_with_no_read_between".into();
    v[P_CLONE] = "clone_out".into();
    v[P_CLONE_FROM] = "clone_from_same_size".into();
    v[P_CLONE_FROM_PERMUTATION] = "clone_from_where_destination_holds_a_permutation_of_the_source".into();
    v[P_ALPHA_DECK] = "swarm_alphabet_distinct_cards_from_a_shuffled_deck_some_flagged".into();
    v[P_SIZEMASK_ALL] = "swarm_all_sizes_enabled".into();
    v[P_SIZEMASK_SUBSET] = "swarm_subset_of_sizes_enabled".into();
    v[P_SELECT_FROM_MUTATED] = "select_from_register_with_setter_writes".into();
    v[P_COMPOSE_FROM_MUTATED] = "compose_from_register_with_setter_writes".into();
    v
}

// cell = (op kind 13) x (size 6) x (slot 7) x (mask of slots overwritten before, 128)
const CELL_BITS: usize = 13 * 6 * 7 * 128;
#[inline]
fn cell(kind: usize, n: usize, slot: usize, mask: u8) -> usize {
    ((kind * 6 + (n - 2)) * 7 + slot) * 128 + mask as usize
}

// ---- real-crate access ------------------------------------------------------

pub fn build(n: usize, via: u8, w: &[u32; 7]) -> (Reg, u8) {
    match n {
        2 => match via {
            VIA_REF => (Reg::Two(Two::from(&[w[0], w[1]])), VIA_REF),
            VIA_NEWFN => (Reg::Two(Two::new(w[0], w[1])), VIA_NEWFN),
            _ => (Reg::Two(Two::from([w[0], w[1]])), VIA_ARR),
        },
        3 => match via {
            VIA_TUPLE => (Reg::Three(Three([w[0], w[1], w[2]])), VIA_TUPLE),
            _ => (Reg::Three(Three::from([w[0], w[1], w[2]])), VIA_ARR),
        },
        4 => (Reg::Four(Four::from([w[0], w[1], w[2], w[3]])), VIA_ARR),
        5 => match via {
            VIA_NEWFN => (Reg::Five(Five::new(w[0], w[1], w[2], w[3], w[4])), VIA_NEWFN),
            _ => (Reg::Five(Five::from([w[0], w[1], w[2], w[3], w[4]])), VIA_ARR),
        },
        6 => (Reg::Six(Six::from([w[0], w[1], w[2], w[3], w[4], w[5]])), VIA_ARR),
        _ => (Reg::Seven(Seven::from([w[0], w[1], w[2], w[3], w[4], w[5], w[6]])), VIA_ARR),
    }
}

fn build_default(n: usize) -> Reg {
    match n {
        2 => Reg::Two(Two::default()),
        3 => Reg::Three(Three::default()),
        4 => Reg::Four(Four::default()),
        5 => Reg::Five(Five::default()),
        6 => Reg::Six(Six::default()),
        _ => Reg::Seven(Seven::default()),
    }
}

fn reg_to_arr(reg: &Reg) -> ([u32; 8], usize) {
    let mut buf = [0u32; 8];
    let n = on_reg!(reg, h => {
        let a = h.to_arr();
        buf[..a.len()].copy_from_slice(&a);
        a.len()
    });
    (buf, n)
}

fn reg_iter(reg: &Reg) -> ([u32; 8], usize) {
    let mut buf = [0u32; 8];
    let mut n = 0usize;
    on_reg!(reg, h => {
        for x in h.iter() {
            if n < 8 {
                buf[n] = *x;
            }
            n += 1;
        }
    });
    (buf, n)
}

pub fn reg_accessors(reg: &Reg) -> ([u32; 8], usize) {
    let mut b = [0u32; 8];
    let n = match reg {
        Reg::Two(h) => {
            b[0] = h.first();
            b[1] = h.second();
            2
        }
        Reg::Three(h) => {
            b[0] = h.first();
            b[1] = h.second();
            b[2] = h.third();
            3
        }
        Reg::Four(h) => {
            b[0] = h.first();
            b[1] = h.second();
            b[2] = h.third();
            b[3] = h.forth();
            4
        }
        Reg::Five(h) => {
            b[0] = h.first();
            b[1] = h.second();
            b[2] = h.third();
            b[3] = h.forth();
            b[4] = h.fifth();
            5
        }
        Reg::Six(h) => {
            b[0] = h.first();
            b[1] = h.second();
            b[2] = h.third();
            b[3] = h.forth();
            b[4] = h.fifth();
            b[5] = h.sixth();
            6
        }
        Reg::Seven(h) => {
            b[0] = h.first();
            b[1] = h.second();
            b[2] = h.third();
            b[3] = h.forth();
            b[4] = h.fifth();
            b[5] = h.sixth();
            b[6] = h.seventh();
            7
        }
    };
    (b, n)
}

/// One positional accessor, and nothing else, on the register in place.
pub fn reg_accessor(reg: &Reg, k: usize) -> u32 {
    match reg {
        Reg::Two(h) => match k {
            0 => h.first(),
            _ => h.second(),
        },
        Reg::Three(h) => match k {
            0 => h.first(),
            1 => h.second(),
            _ => h.third(),
        },
        Reg::Four(h) => match k {
            0 => h.first(),
            1 => h.second(),
            2 => h.third(),
            _ => h.forth(),
        },
        Reg::Five(h) => match k {
            0 => h.first(),
            1 => h.second(),
            2 => h.third(),
            3 => h.forth(),
            _ => h.fifth(),
        },
        Reg::Six(h) => match k {
            0 => h.first(),
            1 => h.second(),
            2 => h.third(),
            3 => h.forth(),
            4 => h.fifth(),
            _ => h.sixth(),
        },
        Reg::Seven(h) => match k {
            0 => h.first(),
            1 => h.second(),
            2 => h.third(),
            3 => h.forth(),
            4 => h.fifth(),
            5 => h.sixth(),
            _ => h.seventh(),
        },
    }
}

pub fn reg_set(reg: &mut Reg, k: usize, w: u32) {
    match reg {
        Reg::Two(h) => match k {
            0 => h.set_first(w),
            _ => h.set_second(w),
        },
        Reg::Three(h) => match k {
            0 => h.set_first(w),
            1 => h.set_second(w),
            _ => h.set_third(w),
        },
        Reg::Four(h) => match k {
            0 => h.set_first(w),
            1 => h.set_second(w),
            2 => h.set_third(w),
            _ => h.set_forth(w),
        },
        Reg::Five(h) => match k {
            0 => h.set_first(w),
            1 => h.set_second(w),
            2 => h.set_third(w),
            3 => h.set_forth(w),
            _ => h.set_fifth(w),
        },
        Reg::Six(h) => match k {
            0 => h.set_first(w),
            1 => h.set_second(w),
            2 => h.set_third(w),
            3 => h.set_forth(w),
            4 => h.set_fifth(w),
            _ => h.set_sixth(w),
        },
        Reg::Seven(h) => match k {
            0 => h.set_first(w),
            1 => h.set_second(w),
            2 => h.set_third(w),
            3 => h.set_forth(w),
            4 => h.set_fifth(w),
            5 => h.set_sixth(w),
            _ => h.set_seventh(w),
        },
    }
}

/// Calls one of the container's other public methods and throws the result away. Returns whether
/// it was a ranking call. None of them takes `&mut self`; whatever they return or however they
/// fail is some other property's subject.
fn reg_env(reg: &Reg, which: usize) -> bool {
    use std::hint::black_box as bb;
    let mut ranking = false;
    match reg {
        Reg::Two(h) => match which % 9 {
            0 => { bb(h.sort()); }
            1 => { bb(h.are_unique()); }
            2 => { bb(HandValidator::is_valid(h)); }
            3 => { bb(h.contain_blank()); }
            4 => { bb(h.shift_suit()); }
            5 => { bb(h.chen_formula()); }
            6 => { bb(h.is_suited()); }
            7 => { bb(h.high_card()); }
            _ => { bb(h.is_corrupt()); }
        },
        Reg::Three(h) => match which % 5 {
            0 => { bb(h.sort()); }
            1 => { bb(h.are_unique()); }
            2 => { bb(HandValidator::is_valid(h)); }
            3 => { bb(h.shift_suit()); }
            _ => { bb(h.is_corrupt()); }
        },
        Reg::Four(h) => match which % 5 {
            0 => { bb(h.sort()); }
            1 => { bb(h.are_unique()); }
            2 => { bb(HandValidator::is_valid(h)); }
            3 => { bb(h.shift_suit()); }
            _ => { bb(h.contain_blank()); }
        },
        Reg::Five(h) => match which % 10 {
            0 => { ranking = true; bb(h.hand_rank_value()); }
            1 => { ranking = true; bb(h.hand_rank_value_validated()); }
            2 => { ranking = true; bb(h.hand_rank_value_and_hand()); }
            3 => { bb(h.sort()); }
            4 => { bb(HandValidator::is_valid(h)); }
            5 => { bb(h.shift_suit()); }
            6 => { bb(h.is_flush()); }
            7 => { bb(h.is_straight()); }
            8 => { bb(h.or_rank_bits()); }
            _ => { ranking = true; bb(h.hand_rank()); }
        },
        Reg::Six(h) => match which % 7 {
            0 => { ranking = true; bb(h.hand_rank_value()); }
            1 => { ranking = true; bb(h.hand_rank_value_validated()); }
            2 => { ranking = true; bb(h.hand_rank_value_and_hand()); }
            3 => { bb(h.sort()); }
            4 => { bb(HandValidator::is_valid(h)); }
            5 => { bb(h.shift_suit()); }
            _ => { bb(h.are_unique()); }
        },
        Reg::Seven(h) => match which % 7 {
            0 => { ranking = true; bb(h.hand_rank_value()); }
            1 => { ranking = true; bb(h.hand_rank_value_validated()); }
            2 => { ranking = true; bb(h.hand_rank_value_and_hand()); }
            3 => { bb(h.sort()); }
            4 => { bb(HandValidator::is_valid(h)); }
            5 => { bb(h.shift_suit()); }
            _ => { bb(h.are_unique()); }
        },
    }
    ranking
}

fn reg_sort_in_place(reg: &mut Reg) {
    on_reg!(reg, h => h.sort_in_place());
}

fn words_str(w: &[u32]) -> String {
    let parts: Vec<String> = w.iter().map(|x| format!("{:#010x}", x)).collect();
    format!("[{}]", parts.join(", "))
}

struct WriteRec {
    step: usize,
    reg: u8,
    slot: u8,
    word: u32,
}

fn provenance(writes: &[WriteRec], word: u32) -> String {
    let hits: Vec<String> = writes
        .iter()
        .filter(|w| w.word == word)
        .take(3)
        .map(|w| format!("step {} -> register {} slot {}", w.step, w.reg, w.slot))
        .collect();
    if hits.is_empty() {
        format!("word {:#010x} was never written in this run", word)
    } else {
        format!("word {:#010x} was written at {}", word, hits.join("; "))
    }
}

/// I1..I4 for one register. Returns (invariant id, detail, an observed word for provenance).
fn check_reg(reg: &Reg, m: &M, odd_step: bool) -> Option<(&'static str, String, u32)> {
    let n = m.n as usize;
    let want = m.slice();
    let (a, an) = reg_to_arr(reg);
    if an != n {
        return Some(("I1-to_arr", format!("to_arr() has {} slots, model has {}", an, n), 0));
    }
    for k in 0..n {
        if a[k] != want[k] {
            return Some(("I1-to_arr", format!("to_arr()[{}] = {:#010x}, model slot {} = {:#010x}; to_arr = {}, model = {}", k, a[k], k, want[k], words_str(&a[..n]), words_str(want)), a[k]));
        }
    }
    let (acc, cn) = reg_accessors(reg);
    debug_assert_eq!(cn, n);
    for k in 0..n {
        if acc[k] != want[k] {
            return Some(("I2-accessor", format!("accessor for slot {} returned {:#010x}, model slot {} = {:#010x}; accessors = {}, model = {}", k, acc[k], k, want[k], words_str(&acc[..n]), words_str(want)), acc[k]));
        }
    }
    let (it, cnt) = reg_iter(reg);
    if cnt != n {
        return Some(("I3-iter", format!("iter() yielded {} items, container has {} slots", cnt, n), 0));
    }
    for k in 0..n {
        if it[k] != want[k] {
            return Some(("I3-iter", format!("iter() item {} = {:#010x}, model slot {} = {:#010x}; iter = {}, model = {}", k, it[k], k, want[k], words_str(&it[..n]), words_str(want)), it[k]));
        }
    }
    // The same reads through the traits' own paths. Method syntax resolves to an inherent method
    // when a type has one of that name, so `h.first()` alone would stop exercising the trait's
    // `first` / `iter` the day somebody adds inherent twins; generic callers still reach the trait.
    let tfirst = on_reg!(reg, h => HandValidator::first(h));
    if tfirst != want[0] {
        return Some(("I2-accessor", format!("HandValidator::first(&hand) returned {:#010x}, model slot 0 = {:#010x}; model = {}", tfirst, want[0], words_str(want)), tfirst));
    }
    {
        let mut k = 0usize;
        let mut bad: Option<(usize, u32)> = None;
        on_reg!(reg, h => {
            for x in HandValidator::iter(h) {
                if bad.is_none() && (k >= n || *x != want[k]) {
                    bad = Some((k, *x));
                }
                k += 1;
            }
        });
        if k != n {
            return Some(("I3-iter", format!("HandValidator::iter(&hand) yielded {} items, container has {} slots", k, n), 0));
        }
        if let Some((k, x)) = bad {
            return Some(("I3-iter", format!("HandValidator::iter(&hand) item {} = {:#010x}, model slot {} = {:#010x}", k, x, k, want[k]), x));
        }
    }
    // I5: the slot-index selection read path as a standing invariant on every live six- or
    // seven-slot register: the identity tuple and the reversed tuple by method syntax (between
    // them every slot), and a scrambled tuple through `Permutator::five_from_permutation` named
    // as the trait's method. The three are made in opposite order on odd and even steps, so that
    // at every step boundary the same tuple is applied to two consecutive states back to back
    // (a last-result shortcut keyed on too little would confuse exactly those).
    let n_slots = m.n as usize;
    if n_slots >= 6 {
        let tuples: [([u8; 5], bool); 3] = if n_slots == 6 { [([0, 1, 2, 3, 4], false), ([5, 4, 3, 2, 1], false), ([5, 3, 1, 4, 2], true)] } else { [([0, 1, 2, 3, 4], false), ([6, 5, 4, 3, 2], false), ([6, 4, 2, 0, 5], true)] };
        let order: [usize; 3] = if odd_step { [2, 1, 0] } else { [0, 1, 2] };
        for t in order {
            let (idx, via_trait) = tuples[t];
            let five = match reg {
                Reg::Six(x) => {
                    if via_trait {
                        Permutator::five_from_permutation(x, idx)
                    } else {
                        x.five_from_permutation(idx)
                    }
                }
                Reg::Seven(x) => {
                    if via_trait {
                        Permutator::five_from_permutation(x, idx)
                    } else {
                        x.five_from_permutation(idx)
                    }
                }
                _ => break,
            };
            let a = five.to_arr();
            for j in 0..5 {
                if a[j] != want[idx[j] as usize] {
                    return Some(("I5-select", format!("{}five_from_permutation({:?}) slot {} = {:#010x}, model slot {} = {:#010x}", if via_trait { "Permutator::" } else { "" }, idx, j, a[j], idx[j], want[idx[j] as usize]), a[j]));
                }
            }
        }
    }
    if let Reg::Three(t) = reg {
        for k in 0..3 {
            if t.0[k] != want[k] {
                return Some(("I4-field", format!("Three.0[{}] = {:#010x}, model = {:#010x}", k, t.0[k], want[k]), t.0[k]));
            }
        }
    }
    None
}

fn is_card_word(w: u32) -> bool {
    (0..52).any(|i| card_word(i) == w)
}

// ---- execution ---------------------------------------------------------------

pub struct C19;

impl C19 {
    fn exec(ops: &[Op], obs: &mut Obs) -> Outcome {
        let mut regs: [Option<Reg>; NREGS] = [None; NREGS];
        let mut model: [M; NREGS] = [M::EMPTY; NREGS];
        let mut over: [u8; NREGS] = [0; NREGS];
        let mut copied: [bool; NREGS] = [false; NREGS];
        let mut was_src: [bool; NREGS] = [false; NREGS];
        let mut writes: Vec<WriteRec> = Vec::new();
        let mut h = FNV_OFFSET;
        let mut nontrivial = false;
        let mut prev_kind: Option<usize> = None;
        let mut kinds_used: u64 = 0;
        let detail = obs.detail;
        // read sweeps still to be left out; registers named since the last sweep; mutations since then
        let mut quiet_left: u32 = 0;
        let mut pending: u8 = 0;
        let mut unread_mutations: u32 = 0;
        // what the caller last saw in each slot (by sweep or by a single look), and whether the
        // register has been replaced wholesale since anybody read it
        let mut last_seen: [[Option<u32>; 7]; NREGS] = [[None; 7]; NREGS];
        let mut unread_overwrite: [bool; NREGS] = [false; NREGS];

        for (step, op) in ops.iter().enumerate() {
            let kind = Self::op_kind(op);
            kinds_used |= 1 << kind;
            if let Some(p) = prev_kind {
                obs.bigram(p, kind);
            }
            prev_kind = Some(kind);
            h = fold(h, 0x1000 + kind as u64);
            let mut touched: Option<usize> = None;
            match op {
                Op::New { dst, n, via, words } => {
                    let (d, n) = (*dst as usize % NREGS, (*n as usize).clamp(2, 7));
                    at(step, kind, SIZE_NAMES[n]);
                    if regs[d].is_some() {
                        obs.hit(P_OVERWRITE_LIVE);
                    }
                    let (reg, via_used) = build(n, *via, words);
                    regs[d] = Some(reg);
                    model[d] = M::of(&words[..n]);
                    over[d] = 0;
                    copied[d] = false;
                    was_src[d] = false;
                    match via_used {
                        VIA_REF => obs.hit(P_NEW_REF_TWO),
                        VIA_NEWFN if n == 2 => obs.hit(P_NEW_FN_TWO),
                        VIA_NEWFN => obs.hit(P_NEW_FN_FIVE),
                        VIA_TUPLE => obs.hit(P_NEW_TUPLE_THREE),
                        _ => obs.hit(P_NEW_ARR + n - 2),
                    }
                    let ws = &words[..n];
                    if (1..n).any(|i| ws[..i].contains(&ws[i])) {
                        obs.hit(P_NEW_WITH_DUPLICATES);
                    }
                    if ws.windows(2).all(|p| p[0] > p[1]) {
                        obs.hit(P_NEW_SORTED_DESC);
                    }
                    if ws.windows(2).all(|p| p[0] < p[1]) {
                        obs.hit(P_NEW_SORTED_ASC);
                    }
                    obs.cell(cell(kind, n, 0, 0));
                    h = fold(h, (d as u64) << 8 | n as u64);
                    h = fold(h, via_used as u64);
                    if detail {
                        for k in 0..n {
                            writes.push(WriteRec { step, reg: d as u8, slot: k as u8, word: words[k] });
                        }
                    }
                    if obs.tracing() {
                        obs.log(format!("#{} r{} := {} via {} from {}", step, d, SIZE_NAMES[n], ["From<[u32;N]>", "From<&[u32;2]>", "new(..)", "tuple literal"][via_used as usize], words_str(ws)));
                    }
                    touched = Some(d);
                }
                Op::NewDefault { dst, n } => {
                    let (d, n) = (*dst as usize % NREGS, (*n as usize).clamp(2, 7));
                    at(step, kind, SIZE_NAMES[n]);
                    if regs[d].is_some() {
                        obs.hit(P_OVERWRITE_LIVE);
                    }
                    let reg = build_default(n);
                    // C19 does not say what a default holds: the model takes what is observed.
                    let (a, an) = reg_to_arr(&reg);
                    regs[d] = Some(reg);
                    model[d] = M::of(&a[..an.min(7)]);
                    if an != n {
                        return Self::fail(h, step, "I1-to_arr", kind, SIZE_NAMES[n], format!("default {} reports {} slots", SIZE_NAMES[n], an), nontrivial, obs);
                    }
                    over[d] = 0;
                    copied[d] = false;
                    was_src[d] = false;
                    obs.hit(P_DEFAULT + n - 2);
                    obs.cell(cell(kind, n, 0, 0));
                    h = fold(h, (d as u64) << 8 | n as u64);
                    if obs.tracing() {
                        obs.log(format!("#{} r{} := {}::default() -> observed {}", step, d, SIZE_NAMES[n], words_str(&a[..an])));
                    }
                    touched = Some(d);
                }
                Op::Set { r, k, w } => {
                    let (r, k) = (*r as usize % NREGS, *k as usize);
                    let n = model[r].n as usize;
                    if regs[r].is_none() || k >= n {
                        obs.hit(P_NOOP);
                        if obs.tracing() {
                            obs.log(format!("#{} set r{} slot {}: not applicable, no-op", step, r, k));
                        }
                    } else {
                        at(step, kind, SIZE_NAMES[n]);
                        let old = model[r].w[k];
                        obs.hit(P_SET + SET_OFF[n - 2] + k);
                        obs.cell(cell(kind, n, k, over[r]));
                        if old == *w {
                            obs.hit(P_SET_SAME);
                        } else {
                            nontrivial = true;
                        }
                        if (k > 0 && model[r].w[k - 1] == *w) || (k + 1 < n && model[r].w[k + 1] == *w) {
                            obs.hit(P_SET_NEIGHBOUR);
                        }
                        if (0..n).any(|j| j != k && model[r].w[j] == *w) {
                            obs.hit(P_SET_ALREADY_ELSEWHERE);
                        }
                        if *w == 0 {
                            obs.hit(P_SET_ZERO);
                        } else if *w == u32::MAX {
                            obs.hit(P_SET_MAX);
                        }
                        if is_card_word(*w) {
                            obs.hit(P_SET_CARD);
                        } else {
                            obs.hit(P_SET_NONCARD);
                        }
                        if copied[r] {
                            obs.hit(P_WRITE_AFTER_COPY);
                        }
                        if was_src[r] {
                            obs.hit(P_MUTATE_COMPOSE_SRC);
                        }
                        if unread_overwrite[r] {
                            obs.hit(P_SET_UNREAD_OVERWRITE);
                        }
                        if last_seen[r][k] == Some(*w) && old != *w {
                            obs.hit(P_SET_STALE_LAST_READ);
                        }
                        reg_set(regs[r].as_mut().unwrap(), k, *w);
                        model[r].w[k] = *w;
                        over[r] |= 1 << k;
                        h = fold(h, (r as u64) << 8 | k as u64);
                        h = fold(h, *w as u64);
                        if detail {
                            writes.push(WriteRec { step, reg: r as u8, slot: k as u8, word: *w });
                        }
                        if obs.tracing() {
                            obs.log(format!("#{} r{}({}).set slot {} := {:#010x} (was {:#010x})", step, r, SIZE_NAMES[n], k, w, old));
                        }
                        touched = Some(r);
                    }
                }
                Op::Compose6 { dst, one, two, three } => {
                    let (d, t2, t3) = (*dst as usize % NREGS, *two as usize % NREGS, *three as usize % NREGS);
                    match (regs[t2], regs[t3]) {
                        (Some(Reg::Two(a)), Some(Reg::Three(b))) => {
                            at(step, kind, "Six");
                            if regs[d].is_some() {
                                obs.hit(P_OVERWRITE_LIVE);
                            }
                            if over[t2] != 0 || over[t3] != 0 {
                                obs.hit(P_COMPOSE_FROM_MUTATED);
                            }
                            let six = Six::from_1_and_2_and_3(*one, a, b);
                            let mut w = [0u32; 7];
                            w[0] = *one;
                            w[1..3].copy_from_slice(model[t2].slice());
                            w[3..6].copy_from_slice(model[t3].slice());
                            regs[d] = Some(Reg::Six(six));
                            model[d] = M::of(&w[..6]);
                            over[d] = 0;
                            copied[d] = false;
                            was_src[d] = false;
                            was_src[t2] = true;
                            was_src[t3] = true;
                            obs.hit(P_COMPOSE6);
                            obs.cell(cell(kind, 6, 0, 0));
                            nontrivial = true;
                            h = fold(h, (d as u64) << 16 | (t2 as u64) << 8 | t3 as u64);
                            h = fold(h, *one as u64);
                            if detail {
                                for k in 0..6 {
                                    writes.push(WriteRec { step, reg: d as u8, slot: k as u8, word: w[k] });
                                }
                            }
                            if obs.tracing() {
                                obs.log(format!("#{} r{} := Six::from_1_and_2_and_3({:#010x}, r{}, r{}) expect {}", step, d, one, t2, t3, words_str(&w[..6])));
                            }
                            touched = Some(d);
                        }
                        _ => {
                            obs.hit(P_NOOP);
                            if obs.tracing() {
                                obs.log(format!("#{} compose6: not applicable, no-op", step));
                            }
                        }
                    }
                }
                Op::Compose7 { dst, two, five } => {
                    let (d, t2, t5) = (*dst as usize % NREGS, *two as usize % NREGS, *five as usize % NREGS);
                    match (regs[t2], regs[t5]) {
                        (Some(Reg::Two(a)), Some(Reg::Five(b))) => {
                            at(step, kind, "Seven");
                            if regs[d].is_some() {
                                obs.hit(P_OVERWRITE_LIVE);
                            }
                            if over[t2] != 0 || over[t5] != 0 {
                                obs.hit(P_COMPOSE_FROM_MUTATED);
                            }
                            let seven = Seven::new(a, b);
                            let mut w = [0u32; 7];
                            w[0..2].copy_from_slice(model[t2].slice());
                            w[2..7].copy_from_slice(model[t5].slice());
                            regs[d] = Some(Reg::Seven(seven));
                            model[d] = M::of(&w);
                            over[d] = 0;
                            copied[d] = false;
                            was_src[d] = false;
                            was_src[t2] = true;
                            was_src[t5] = true;
                            obs.hit(P_COMPOSE7);
                            obs.cell(cell(kind, 7, 0, 0));
                            nontrivial = true;
                            h = fold(h, (d as u64) << 16 | (t2 as u64) << 8 | t5 as u64);
                            if detail {
                                for k in 0..7 {
                                    writes.push(WriteRec { step, reg: d as u8, slot: k as u8, word: w[k] });
                                }
                            }
                            if obs.tracing() {
                                obs.log(format!("#{} r{} := Seven::new(r{}, r{}) expect {}", step, d, t2, t5, words_str(&w)));
                            }
                            touched = Some(d);
                        }
                        _ => {
                            obs.hit(P_NOOP);
                            if obs.tracing() {
                                obs.log(format!("#{} compose7: not applicable, no-op", step));
                            }
                        }
                    }
                }
                Op::Select { dst, src, idx } => {
                    let (d, s) = (*dst as usize % NREGS, *src as usize % NREGS);
                    let n = model[s].n as usize;
                    let in_range = idx.iter().all(|i| (*i as usize) < n);
                    let five = match (regs[s], in_range) {
                        (Some(Reg::Six(x)), true) => {
                            at(step, kind, "Six");
                            obs.hit(P_SELECT6);
                            Some(if step % 2 == 1 { Permutator::five_from_permutation(&x, *idx) } else { x.five_from_permutation(*idx) })
                        }
                        (Some(Reg::Seven(x)), true) => {
                            at(step, kind, "Seven");
                            obs.hit(P_SELECT7);
                            Some(if step % 2 == 1 { Permutator::five_from_permutation(&x, *idx) } else { x.five_from_permutation(*idx) })
                        }
                        _ => None,
                    };
                    match five {
                        Some(five) => {
                            if regs[d].is_some() {
                                obs.hit(P_OVERWRITE_LIVE);
                            }
                            if over[s] != 0 {
                                obs.hit(P_SELECT_FROM_MUTATED);
                            }
                            if (1..5).any(|i| idx[..i].contains(&idx[i])) {
                                obs.hit(P_SELECT_REPEAT);
                            }
                            let mut w = [0u32; 7];
                            for j in 0..5 {
                                w[j] = model[s].w[idx[j] as usize];
                            }
                            // dst may be src: the model was read above, before the write
                            regs[d] = Some(Reg::Five(five));
                            model[d] = M::of(&w[..5]);
                            over[d] = 0;
                            copied[d] = false;
                            was_src[d] = false;
                            if d != s {
                                was_src[s] = true;
                            }
                            obs.cell(cell(kind, n, idx[0] as usize, 0));
                            nontrivial = true;
                            h = fold(h, (d as u64) << 8 | s as u64);
                            h = fold(h, idx.iter().fold(0u64, |a, i| a * 8 + *i as u64));
                            if detail {
                                for k in 0..5 {
                                    writes.push(WriteRec { step, reg: d as u8, slot: k as u8, word: w[k] });
                                }
                            }
                            if obs.tracing() {
                                obs.log(format!("#{} r{} := r{}({}).five_from_permutation({:?}) expect {}", step, d, s, SIZE_NAMES[n], idx, words_str(&w[..5])));
                            }
                            touched = Some(d);
                        }
                        None => {
                            obs.hit(P_NOOP);
                            if obs.tracing() {
                                obs.log(format!("#{} select: not applicable, no-op", step));
                            }
                        }
                    }
                }
                Op::CopyOut { dst, src } => {
                    let (d, s) = (*dst as usize % NREGS, *src as usize % NREGS);
                    match regs[s] {
                        Some(reg) if d != s => {
                            let n = model[s].n as usize;
                            at(step, kind, SIZE_NAMES[n]);
                            if regs[d].is_some() {
                                obs.hit(P_OVERWRITE_LIVE);
                            }
                            let copy = reg; // `Copy`
                            regs[d] = Some(copy);
                            model[d] = model[s];
                            over[d] = over[s];
                            copied[d] = true;
                            copied[s] = true;
                            was_src[d] = false;
                            obs.hit(P_COPY);
                            obs.cell(cell(kind, n, 0, over[s]));
                            h = fold(h, (d as u64) << 8 | s as u64);
                            if obs.tracing() {
                                obs.log(format!("#{} r{} := copy of r{}({})", step, d, s, SIZE_NAMES[n]));
                            }
                            touched = Some(d);
                        }
                        _ => {
                            obs.hit(P_NOOP);
                            if obs.tracing() {
                                obs.log(format!("#{} copy: not applicable, no-op", step));
                            }
                        }
                    }
                }
                Op::CloneOut { dst, src } => {
                    let (d, sr) = (*dst as usize % NREGS, *src as usize % NREGS);
                    match regs[sr] {
                        Some(reg) if d != sr => {
                            let n = model[sr].n as usize;
                            at(step, kind, SIZE_NAMES[n]);
                            #[allow(clippy::clone_on_copy)]
                            let cl = on_reg_map!(reg);
                            regs[d] = Some(cl);
                            model[d] = model[sr];
                            over[d] = over[sr];
                            copied[d] = true;
                            copied[sr] = true;
                            was_src[d] = false;
                            obs.hit(P_CLONE);
                            obs.cell(cell(kind, n, 0, over[sr]));
                            h = fold(h, (d as u64) << 8 | sr as u64);
                            if obs.tracing() {
                                obs.log(format!("#{} r{} := r{}({}).clone()", step, d, sr, SIZE_NAMES[n]));
                            }
                            touched = Some(d);
                        }
                        _ => obs.hit(P_NOOP),
                    }
                }
                Op::CloneFrom { dst, src } => {
                    let (d, sr) = (*dst as usize % NREGS, *src as usize % NREGS);
                    let same_size = model[d].n > 0 && model[d].n == model[sr].n && d != sr;
                    if same_size {
                        let n = model[sr].n as usize;
                        at(step, kind, SIZE_NAMES[n]);
                        let mut a: Vec<u32> = model[d].slice().to_vec();
                        let mut b: Vec<u32> = model[sr].slice().to_vec();
                        a.sort_unstable();
                        b.sort_unstable();
                        if a == b && model[d] != model[sr] {
                            obs.hit(P_CLONE_FROM_PERMUTATION);
                        }
                        let source = regs[sr].unwrap();
                        match (regs[d].as_mut().unwrap(), &source) {
                            (Reg::Two(x), Reg::Two(y)) => x.clone_from(y),
                            (Reg::Three(x), Reg::Three(y)) => x.clone_from(y),
                            (Reg::Four(x), Reg::Four(y)) => x.clone_from(y),
                            (Reg::Five(x), Reg::Five(y)) => x.clone_from(y),
                            (Reg::Six(x), Reg::Six(y)) => x.clone_from(y),
                            (Reg::Seven(x), Reg::Seven(y)) => x.clone_from(y),
                            _ => {}
                        }
                        model[d] = model[sr];
                        over[d] = over[sr];
                        copied[d] = true;
                        copied[sr] = true;
                        obs.hit(P_CLONE_FROM);
                        obs.cell(cell(kind, n, 0, over[sr]));
                        nontrivial = true;
                        h = fold(h, (d as u64) << 8 | sr as u64);
                        if obs.tracing() {
                            obs.log(format!("#{} r{}.clone_from(&r{}) ({})", step, d, sr, SIZE_NAMES[n]));
                        }
                        touched = Some(d);
                    } else {
                        obs.hit(P_NOOP);
                    }
                }
                Op::Env { r, which } => {
                    let r = *r as usize % NREGS;
                    if let Some(reg) = regs[r] {
                        let n = model[r].n as usize;
                        at(step, kind, SIZE_NAMES[n]);
                        obs.hit(P_ENV);
                        obs.cell(cell(kind, n, (*which as usize) % 7, 0));
                        // the result, or a panic (ranking a hand with a blank panics on the pinned tree,
                        // DESIGN 7), is not C19's business and is kept out of the digest; what C19 says is
                        // that afterwards every register still reads back as its model
                        match crate::sim::swallow_crate_panic(|| reg_env(&reg, *which as usize)) {
                            Some(true) => obs.hit(P_ENV_RANKING),
                            Some(false) => {}
                            None => obs.hit(P_ENV_PANICKED),
                        }
                        h = fold(h, (r as u64) << 8 | *which as u64);
                        if obs.tracing() {
                            obs.log(format!("#{} r{}({}): environment call #{} (result ignored)", step, r, SIZE_NAMES[n], which));
                        }
                    } else {
                        obs.hit(P_NOOP);
                    }
                }
                Op::Quiet { n } => {
                    // as the last operation it has nothing to silence, and the final sweep stays
                    if step + 1 < ops.len() {
                        quiet_left = (*n as u32).clamp(1, 8);
                        h = fold(h, quiet_left as u64);
                        if obs.tracing() {
                            obs.log(format!("#{} the next {} operations are not followed by a read", step, quiet_left));
                        }
                        continue;
                    }
                }
                Op::Peek { r, k, path } => {
                    let (r, k, path) = (*r as usize % NREGS, *k as usize, *path as usize % 3);
                    let n = model[r].n as usize;
                    if regs[r].is_none() || k >= n {
                        obs.hit(P_NOOP);
                    } else {
                        at(step, kind, SIZE_NAMES[n]);
                        obs.hit(P_PEEK);
                        let reg = regs[r].as_ref().unwrap();
                        let got = match path {
                            0 => reg_accessor(reg, k),
                            1 => reg_to_arr(reg).0[k],
                            _ => reg_iter(reg).0[k],
                        };
                        let want = model[r].w[k];
                        h = fold(h, (r as u64) << 16 | (k as u64) << 8 | path as u64);
                        h = fold(h, got as u64);
                        if obs.tracing() {
                            obs.log(format!("#{} r{}({}) slot {} read by {} -> {:#010x}", step, r, SIZE_NAMES[n], k, ["its accessor", "to_arr()", "iter()"][path], got));
                        }
                        if got != want {
                            let inv = ["I2-accessor", "I1-to_arr", "I3-iter"][path];
                            let mut d = format!("at step {} a single read of register {} ({}) slot {} by {} returned {:#010x}, model slot {} = {:#010x}; model = {}", step, r, SIZE_NAMES[n], k, ["its accessor", "to_arr()", "iter()"][path], got, k, want, words_str(model[r].slice()));
                            if detail {
                                d.push_str("; ");
                                d.push_str(&provenance(&writes, got));
                            }
                            return Self::fail(h, step, inv, kind, SIZE_NAMES[n], d, nontrivial, obs);
                        }
                        last_seen[r][k] = Some(got);
                        unread_overwrite[r] = false;
                    }
                }
                Op::SortInPlace { r } => {
                    let r = *r as usize % NREGS;
                    if let Some(mut tmp) = regs[r] {
                        let n = model[r].n as usize;
                        at(step, kind, SIZE_NAMES[n]);
                        // Sorting is another property's subject (C11), and so is whether it accepts
                        // arbitrary words: if it panics, the register is simply given up.
                        let sorted = crate::sim::swallow_crate_panic(|| reg_sort_in_place(&mut tmp)).is_some();
                        if sorted {
                            regs[r] = Some(tmp);
                            // The array model takes the observed result and is held to it from here on.
                            let (a, an) = reg_to_arr(&tmp);
                            model[r] = M::of(&a[..an.min(7)]);
                            over[r] = 0;
                            obs.hit(P_SORT);
                            obs.cell(cell(kind, n, 0, 0));
                            h = fold(h, r as u64);
                            if obs.tracing() {
                                obs.log(format!("#{} r{}({}).sort_in_place() -> observed {} (model re-read; not demanded by C19)", step, r, SIZE_NAMES[n], words_str(&a[..an])));
                            }
                            touched = Some(r);
                        } else {
                            regs[r] = None;
                            model[r] = M::EMPTY;
                            over[r] = 0;
                            obs.hit(P_NOOP);
                            if obs.tracing() {
                                obs.log(format!("#{} r{}({}).sort_in_place() panicked: register given up (sorting is not judged by C19)", step, r, SIZE_NAMES[n]));
                            }
                        }
                    } else {
                        obs.hit(P_NOOP);
                    }
                }
            }

            // every live register, through every read path, after every step — unless the caller
            // is not looking (Op::Quiet); the last step is always followed by the sweep
            if let Some(t) = touched {
                pending |= 1 << t;
                if !matches!(op, Op::Peek { .. } | Op::Env { .. }) {
                    unread_mutations += 1;
                    if unread_mutations >= 2 {
                        obs.hit(P_QUIET_RUN_2PLUS);
                    }
                    if !matches!(op, Op::Set { .. }) {
                        unread_overwrite[t] = true;
                    }
                }
            }
            if quiet_left > 0 {
                quiet_left -= 1;
                if step + 1 < ops.len() {
                    obs.hit(P_QUIET_STEP);
                    continue;
                }
            }
            unread_mutations = 0;
            for r in 0..NREGS {
                if let Some(reg) = regs[r].as_ref() {
                    let n = model[r].n as usize;
                    at(step, kind, SIZE_NAMES[n]);
                    obs.inv_checks += 1;
                    if let Some((inv, msg, word)) = check_reg(reg, &model[r], step % 2 == 1) {
                        let frame = pending & (1 << r) == 0;
                        let inv_id = if frame { "frame" } else { inv };
                        let mut d = format!("after step {} ({}), register {} ({}): {}", step, KINDS[kind], r, SIZE_NAMES[n], msg);
                        if frame {
                            d.push_str(&format!(" [register not named by the operation; failed read path {}]", inv));
                        }
                        if detail {
                            d.push_str("; ");
                            d.push_str(&provenance(&writes, word));
                        }
                        return Self::fail(h, step, inv_id, kind, SIZE_NAMES[n], d, nontrivial, obs);
                    }
                    let (a, an) = reg_to_arr(reg);
                    for x in &a[..an] {
                        h = fold(h, *x as u64);
                    }
                    if obs.tracing() && pending & (1 << r) != 0 {
                        obs.log(format!("     r{} reads back {}", r, words_str(&a[..an])));
                    }
                    for k in 0..an.min(7) {
                        last_seen[r][k] = Some(a[k]);
                    }
                    unread_overwrite[r] = false;
                }
            }
            pending = 0;
        }

        // shape of the final world: sizes of live registers + kinds used
        let mut shape = 0u64;
        for r in 0..NREGS {
            shape = shape * 8 + model[r].n as u64;
        }
        obs.shapes.push(shape << 8 | kinds_used);
        Outcome { digest: h, steps: ops.len() as u32, violation: None, nontrivial }
    }

    fn fail(h: u64, step: usize, inv: &str, kind: usize, sub: &str, detail: String, nontrivial: bool, obs: &mut Obs) -> Outcome {
        let class = format!("{}/{}/{}", inv, KINDS[kind], sub);
        let mut d = fold(h, 0xBAD);
        for b in class.bytes() {
            d = fold(d, b as u64);
        }
        obs.log(format!("#{} VIOLATION {}: {}", step, class, detail));
        Outcome { digest: d, steps: step as u32 + 1, violation: Some(Violation { step, class, detail }), nontrivial }
    }
}

/// Words that tend to be special to somebody: single bits, all-ones-below-a-bit, one-bit-clear,
/// the crate's own masks and flag combinations, values that make tempting in-band markers.
pub fn boundary_words() -> Vec<u32> {
    let mut b: Vec<u32> = Vec::new();
    for k in 0..32 {
        b.push(1u32 << k);
        b.push((1u32 << k).wrapping_sub(1));
        b.push(!(1u32 << k));
    }
    b.extend_from_slice(&[0x1FFF_FFFF, 0x2000_0000, 0x3FFF_FFFF, 0xE000_0000, 0x0000_F000, 0x1FFF_0000, 0x0000_003F, 0x0000_0F00]);
    b.extend_from_slice(&[0x6000_0000, 0xA000_0000, 0xC000_0000, 0xFFFF_FFFE, 0x8000_0001, 0x7FFF_FFFE, 0xFFFF_0000, 0x0000_FFFF, 0xDEAD_BEEF, 0xAAAA_AAAA, 0x5555_5555]);
    b
}

// ---- generation ----------------------------------------------------------------

const ALPHA_TAGS: usize = 0;
const ALPHA_CARDS: usize = 1;
#[allow(dead_code)]
const ALPHA_ARB: usize = 2;
const ALPHA_SORTED: usize = 3;
const ALPHA_MIXED: usize = 4;
const ALPHA_DECK: usize = 5;

// weights: New, NewDefault, Set, Compose6, Compose7, Select, CopyOut, SortInPlace, CloneOut, CloneFrom, Env
const MIXES: [[u32; 11]; 5] = [
    [3, 1, 48, 2, 2, 3, 3, 1, 1, 2, 5],   // setter heavy
    [8, 2, 18, 12, 12, 4, 3, 1, 1, 2, 5], // compose heavy
    [5, 1, 16, 4, 4, 24, 3, 1, 1, 2, 8],  // select heavy
    [6, 2, 26, 6, 6, 8, 6, 3, 3, 5, 8],   // balanced
    [5, 1, 24, 3, 3, 4, 18, 2, 8, 14, 5],  // copy heavy
];

struct Gen<'a> {
    rng: &'a mut Rng,
    alpha: usize,
    sizes: Vec<usize>,
    nregs: usize,
    shadow: [M; NREGS],
    pool: Vec<u32>,
    step: usize,
    deck: Vec<u8>,
    deck_pos: usize,
    boundary: Vec<u32>,
}

impl<'a> Gen<'a> {
    fn card(&mut self) -> u32 {
        card_word(self.rng.usize_below(52))
    }

    fn word(&mut self, reg: usize, slot: usize) -> u32 {
        let alpha = if self.alpha == ALPHA_MIXED { self.rng.usize_below(3) } else { self.alpha };
        match alpha {
            ALPHA_TAGS => 0x4000_0000 | ((self.step as u32 & 0xFFFF) << 8) | slot as u32,
            ALPHA_DECK => {
                // cards dealt without repetition from a shuffled deck (reshuffled when exhausted),
                // now and then carrying a pair/trips/quads flag, now and then a blank
                if self.deck_pos >= self.deck.len() {
                    let mut d = std::mem::take(&mut self.deck);
                    self.rng.shuffle(&mut d);
                    self.deck = d;
                    self.deck_pos = 0;
                }
                let c = card_word(self.deck[self.deck_pos] as usize);
                self.deck_pos += 1;
                match self.rng.below(16) {
                    0 => 0,
                    1 => c | 0x2000_0000,
                    2 => c | [0x4000_0000u32, 0x8000_0000, 0xE000_0000, 0x6000_0000][self.rng.usize_below(4)],
                    _ => c,
                }
            }
            ALPHA_CARDS | ALPHA_SORTED => {
                let m = self.shadow[reg];
                let n = m.n as usize;
                match self.rng.below(8) {
                    0 if n > 0 && slot < n => m.w[slot], // same as current content
                    1 if n > 1 => m.w[(slot + 1) % n],   // neighbour's content
                    2 if n > 1 => m.w[(slot + n - 1) % n],
                    3 => 0,
                    4 => self.card(),
                    _ => *self.rng.pick(&self.pool),
                }
            }
            _ => match self.rng.below(14) {
                12 => *self.rng.pick(&self.boundary),
                13 => [0x2000_0000u32, 0x4000_0000, 0x6000_0000, 0x8000_0000, 0xA000_0000, 0xC000_0000, 0xE000_0000][self.rng.usize_below(7)],
                0 => u32::MAX,
                1 => 0,
                2 => self.card() | [0x2000_0000u32, 0x4000_0000, 0x8000_0000, 0xE000_0000][self.rng.usize_below(4)],
                3 => self.card() ^ (1u32 << self.rng.below(32)),
                4 => self.rng.below(17) as u32,
                5 => self.card(),
                6 => 0x8000_0000,
                7 => self.card() & 0xFFFF_00FF,
                _ => self.rng.next_u32(),
            },
        }
    }

    fn words_for_new(&mut self, reg: usize, n: usize) -> [u32; 7] {
        let mut w = [0u32; 7];
        for k in 0..n {
            w[k] = self.word(reg, k);
        }
        if self.alpha == ALPHA_SORTED {
            match self.rng.below(4) {
                0 => w[..n].sort_unstable(),
                1 => {
                    w[..n].sort_unstable();
                    w[..n].reverse();
                }
                2 => {
                    let x = w[0];
                    for k in 0..n {
                        w[k] = x;
                    }
                }
                _ => {
                    // descending with one adjacent pair swapped
                    w[..n].sort_unstable();
                    w[..n].reverse();
                    let i = self.rng.usize_below(n - 1);
                    w.swap(i, i + 1);
                }
            }
        }
        w
    }

    fn live(&self) -> Vec<usize> {
        (0..self.nregs).filter(|r| self.shadow[*r].n > 0).collect()
    }

    fn live_of(&self, n: usize) -> Vec<usize> {
        (0..self.nregs).filter(|r| self.shadow[*r].n as usize == n).collect()
    }

    fn dst(&mut self) -> usize {
        // prefer a free register, so that objects live long enough to collect a history
        let free: Vec<usize> = (0..self.nregs).filter(|r| self.shadow[*r].n == 0).collect();
        if !free.is_empty() && self.rng.chance(3, 4) {
            return *self.rng.pick(&free);
        }
        self.rng.usize_below(self.nregs)
    }

    fn op_new(&mut self, n: usize) -> Op {
        let dst = self.dst();
        let words = self.words_for_new(dst, n);
        let via = match n {
            2 => *self.rng.pick(&[VIA_ARR, VIA_REF, VIA_NEWFN]),
            3 => *self.rng.pick(&[VIA_ARR, VIA_TUPLE]),
            5 => *self.rng.pick(&[VIA_ARR, VIA_NEWFN]),
            _ => VIA_ARR,
        };
        self.shadow[dst] = M::of(&words[..n]);
        Op::New { dst: dst as u8, n: n as u8, via, words }
    }
}

/// Rewrites a history as told by a caller who does not read everything back after every call:
/// `Quiet` stretches, single looks, and — the shapes a "skip the redundant store" shortcut or a
/// remembered read would get wrong — a register replaced unseen and then given back a word it was
/// last seen holding, and a slot written and restored unseen.
fn unobserved(ops: Vec<Op>, rng: &mut Rng) -> Vec<Op> {
    let mut out: Vec<Op> = Vec::with_capacity(ops.len() * 2);
    // what constructors and setters alone say a register holds: a rough memory of earlier
    // contents (the executor's model stays the only authority)
    let mut seen: [Option<(u8, [u32; 7])>; NREGS] = [None; NREGS];
    for op in ops {
        match rng.below(6) {
            0 => out.push(Op::Quiet { n: 1 + rng.below(4) as u8 }),
            1 => out.push(Op::Peek { r: rng.below(NREGS as u64) as u8, k: rng.below(7) as u8, path: rng.below(3) as u8 }),
            _ => {}
        }
        let mut after: Option<Op> = None;
        match &op {
            Op::New { dst, n, words, .. } => {
                let d = *dst as usize % NREGS;
                if let Some((on, ow)) = seen[d] {
                    if rng.chance(1, 2) {
                        let k = rng.usize_below(on.min(*n).max(1) as usize);
                        if rng.chance(1, 2) {
                            out.push(Op::Peek { r: d as u8, k: k as u8, path: rng.below(3) as u8 });
                        }
                        out.push(Op::Quiet { n: 2 });
                        after = Some(Op::Set { r: d as u8, k: k as u8, w: ow[k] });
                    }
                }
                seen[d] = Some((*n, *words));
                if let Some(Op::Set { k, w, .. }) = &after {
                    if let Some((_, ws)) = seen[d].as_mut() {
                        ws[*k as usize] = *w;
                    }
                }
            }
            Op::Set { r, k, w } => {
                let ri = *r as usize % NREGS;
                if let Some((n, ws)) = seen[ri].as_mut() {
                    if (*k as usize) < *n as usize {
                        let old = ws[*k as usize];
                        if rng.chance(1, 4) {
                            out.push(Op::Quiet { n: 2 });
                            after = Some(Op::Set { r: *r, k: *k, w: old });
                        } else {
                            ws[*k as usize] = *w;
                        }
                    }
                }
            }
            Op::NewDefault { dst, .. } | Op::Compose6 { dst, .. } | Op::Compose7 { dst, .. } | Op::Select { dst, .. } | Op::CopyOut { dst, .. } | Op::CloneOut { dst, .. } | Op::CloneFrom { dst, .. } => {
                seen[*dst as usize % NREGS] = None;
            }
            Op::SortInPlace { r } => seen[*r as usize % NREGS] = None,
            Op::Env { .. } | Op::Quiet { .. } | Op::Peek { .. } => {}
        }
        out.push(op);
        if let Some(a) = after {
            out.push(a);
        }
    }
    out
}

impl World for C19 {
    type Op = Op;

    fn id() -> &'static str {
        "C19"
    }
    fn op_kinds() -> &'static [&'static str] {
        &KINDS
    }
    fn probe_names() -> Vec<String> {
        probe_names()
    }
    fn cell_bits() -> usize {
        CELL_BITS
    }
    fn cells_reachable() -> Option<u64> {
        // Set: sum over sizes of slots x 2^slots = 1536; CopyOut: sum of 2^slots = 252;
        // New, NewDefault, SortInPlace: one per size; Compose: 2; Select: 6 + 7 first indexes
        // CloneOut / CloneFrom: like CopyOut, 252 each
        // Env: size x first 7 method indexes
        Some(1536 + 252 + 6 + 6 + 6 + 2 + 13 + 252 + 252 + 6 * 7)
    }
    fn cell_rule() -> &'static str {
        "abstract step cell = (operation kind, container size, slot written or first selected index, mask of slots of that register already overwritten by setters since it was created)"
    }
    fn nontrivial_rule() -> &'static str {
        "a seeded history is non-trivial when, after its first constructor, it contains at least one setter call whose word differs from what the slot held, or a composite construction, or a five-slot selection; distinct = distinct digest of the full event log (operations, arguments and every value read back after every step)"
    }

    fn generate(rng: &mut Rng, obs: &mut Obs) -> Vec<Op> {
        let nregs = 1 + rng.usize_below(NREGS);
        let alpha = rng.usize_below(6);
        let mix = rng.usize_below(5);
        let all_sizes = rng.chance(1, 3);
        let mut sizes: Vec<usize> = Vec::new();
        if all_sizes {
            sizes.extend(2..=7);
        } else {
            while sizes.is_empty() {
                for n in 2..=7 {
                    if rng.chance(2, 5) {
                        sizes.push(n);
                    }
                }
            }
        }
        // one run in 256 is a long-lived history on one or two objects
        let deep = crate::sim::depth() >= 1 && rng.chance(1, 2);
        let xl = if deep { rng.below(8) == 0 } else { rng.below(256) == 0 };
        let nregs = if xl { 1 + rng.usize_below(if deep { 4 } else { 2 }) } else { nregs };
        let len = if xl {
            200 + rng.usize_below(if deep { 801 } else { 401 })
        } else {
            match rng.below(3) {
                0 => 1 + rng.usize_below(3),
                1 => 4 + rng.usize_below(9),
                _ => 13 + rng.usize_below(MAX_LEN - 12),
            }
        };
        obs.hit(P_NREGS + nregs - 1);
        obs.hit(if alpha == ALPHA_DECK { P_ALPHA_DECK } else { P_ALPHA + alpha });
        obs.hit(P_MIX + mix);
        obs.hit(if all_sizes { P_SIZEMASK_ALL } else { P_SIZEMASK_SUBSET });
        obs.hit(if len <= 3 {
            P_LEN_S
        } else if len <= 12 {
            P_LEN_M
        } else if len <= MAX_LEN {
            P_LEN_L
        } else {
            P_LEN_XL
        });
        let npool = 1 + rng.usize_below(4);
        let mut pool: Vec<u32> = (0..npool).map(|_| card_word(rng.usize_below(52))).collect();
        pool.push(0);
        let mut deck: Vec<u8> = (0..52).collect();
        rng.shuffle(&mut deck);
        let mut g = Gen { rng, alpha, sizes, nregs, shadow: [M::EMPTY; NREGS], pool, step: 0, deck, deck_pos: 0, boundary: boundary_words() };
        let mut ops: Vec<Op> = Vec::with_capacity(len);
        while ops.len() < len {
            g.step = ops.len();
            let live = g.live();
            let kind = if live.is_empty() { K_NEW } else { g.rng.weighted(&MIXES[mix]) };
            let op = match kind {
                K_NEW => {
                    let n = *g.rng.pick(&g.sizes.clone());
                    g.op_new(n)
                }
                K_DEFAULT => {
                    let n = *g.rng.pick(&g.sizes.clone());
                    let dst = g.dst();
                    g.shadow[dst] = M::of(&[0u32; 7][..n]);
                    Op::NewDefault { dst: dst as u8, n: n as u8 }
                }
                K_SET => {
                    let r = *g.rng.pick(&live);
                    let n = g.shadow[r].n as usize;
                    let k = g.rng.usize_below(n);
                    let w = g.word(r, k);
                    g.shadow[r].w[k] = w;
                    Op::Set { r: r as u8, k: k as u8, w }
                }
                K_COMPOSE6 => {
                    let (twos, threes) = (g.live_of(2), g.live_of(3));
                    if twos.is_empty() {
                        g.op_new(2)
                    } else if threes.is_empty() {
                        g.op_new(3)
                    } else {
                        let (t2, t3) = (*g.rng.pick(&twos), *g.rng.pick(&threes));
                        let dst = g.dst();
                        let one = g.word(dst, 0);
                        let mut w = [0u32; 7];
                        w[0] = one;
                        w[1..3].copy_from_slice(g.shadow[t2].slice());
                        w[3..6].copy_from_slice(g.shadow[t3].slice());
                        g.shadow[dst] = M::of(&w[..6]);
                        Op::Compose6 { dst: dst as u8, one, two: t2 as u8, three: t3 as u8 }
                    }
                }
                K_COMPOSE7 => {
                    let (twos, fives) = (g.live_of(2), g.live_of(5));
                    if twos.is_empty() {
                        g.op_new(2)
                    } else if fives.is_empty() {
                        g.op_new(5)
                    } else {
                        let (t2, t5) = (*g.rng.pick(&twos), *g.rng.pick(&fives));
                        let dst = g.dst();
                        let mut w = [0u32; 7];
                        w[0..2].copy_from_slice(g.shadow[t2].slice());
                        w[2..7].copy_from_slice(g.shadow[t5].slice());
                        g.shadow[dst] = M::of(&w);
                        Op::Compose7 { dst: dst as u8, two: t2 as u8, five: t5 as u8 }
                    }
                }
                K_SELECT => {
                    let mut srcs = g.live_of(6);
                    srcs.extend(g.live_of(7));
                    if srcs.is_empty() {
                        let n = if g.rng.chance(1, 2) { 6 } else { 7 };
                        g.op_new(n)
                    } else {
                        let s = *g.rng.pick(&srcs);
                        let n = g.shadow[s].n as usize;
                        let dst = g.dst();
                        let mut idx = [0u8; 5];
                        match g.rng.below(4) {
                            0 => {
                                // a genuine combination, as the evaluator uses
                                let mut all: Vec<u8> = (0..n as u8).collect();
                                g.rng.shuffle(&mut all);
                                let mut pick: Vec<u8> = all[..5].to_vec();
                                pick.sort_unstable();
                                idx.copy_from_slice(&pick);
                            }
                            1 => {
                                // a permutation of distinct indexes
                                let mut all: Vec<u8> = (0..n as u8).collect();
                                g.rng.shuffle(&mut all);
                                idx.copy_from_slice(&all[..5]);
                            }
                            _ => {
                                for i in idx.iter_mut() {
                                    *i = g.rng.below(n as u64) as u8;
                                }
                            }
                        }
                        let mut w = [0u32; 7];
                        for j in 0..5 {
                            w[j] = g.shadow[s].w[idx[j] as usize];
                        }
                        g.shadow[dst] = M::of(&w[..5]);
                        Op::Select { dst: dst as u8, src: s as u8, idx }
                    }
                }
                K_COPY => {
                    let s = *g.rng.pick(&live);
                    let dst = g.dst();
                    if dst != s {
                        g.shadow[dst] = g.shadow[s];
                    }
                    Op::CopyOut { dst: dst as u8, src: s as u8 }
                }
                K_ENV => {
                    let r = *g.rng.pick(&live);
                    Op::Env { r: r as u8, which: g.rng.below(16) as u8 }
                }
                K_CLONE => {
                    let s = *g.rng.pick(&live);
                    let dst = g.dst();
                    if dst != s {
                        g.shadow[dst] = g.shadow[s];
                    }
                    Op::CloneOut { dst: dst as u8, src: s as u8 }
                }
                K_CLONE_FROM => {
                    // destination of the same size; often one that was derived from the source
                    // (a copy that has since been sorted or had two words swapped by setters)
                    let s = *g.rng.pick(&live);
                    let n = g.shadow[s].n;
                    let same: Vec<usize> = (0..g.nregs).filter(|r| *r != s && g.shadow[*r].n == n).collect();
                    if same.is_empty() {
                        let dst = g.dst();
                        if dst != s {
                            g.shadow[dst] = g.shadow[s];
                        }
                        Op::CopyOut { dst: dst as u8, src: s as u8 }
                    } else {
                        let d = *g.rng.pick(&same);
                        g.shadow[d] = g.shadow[s];
                        Op::CloneFrom { dst: d as u8, src: s as u8 }
                    }
                }
                _ => {
                    let r = *g.rng.pick(&live);
                    let n = g.shadow[r].n as usize;
                    g.shadow[r].w[..n].sort_unstable();
                    g.shadow[r].w[..n].reverse();
                    Op::SortInPlace { r: r as u8 }
                }
            };
            ops.push(op);
        }
        // one history in four is then told by a caller who does not look after every call
        // (drawn after the history itself, so the other three quarters are what they always were)
        let Gen { rng, .. } = g;
        if rng.chance(1, 4) {
            ops = unobserved(ops, rng);
        }
        ops
    }

    fn execute(ops: &[Op], obs: &mut Obs) -> Outcome {
        C19::exec(ops, obs)
    }

    fn directed() -> Vec<(String, Vec<Op>)> {
        let mut out: Vec<(String, Vec<Op>)> = Vec::new();
        let tag = |step: u32, slot: u32| 0x4000_0000u32 | (step << 8) | slot;
        let tagged = |step: u32| {
            let mut w = [0u32; 7];
            for k in 0..7 {
                w[k] = tag(step, k as u32);
            }
            w
        };
        // word classes for the setter sweep
        let classes: [(&str, u32); 8] = [
            ("tag", 0x4000_7700),
            ("ace_of_spades", card_word(0)),
            ("deuce_of_clubs", card_word(51)),
            ("blank", 0),
            ("all_ones", u32::MAX),
            ("card_with_pair_flag", card_word(17) | 0x2000_0000),
            ("card_one_bit_off", card_word(30) ^ 0x100),
            ("small_integer", 7),
        ];
        // each of the 27 setters, from each constructor kind, with each word class
        for n in 2..=7u8 {
            let vias: Vec<Option<u8>> = match n {
                2 => vec![Some(VIA_ARR), Some(VIA_REF), Some(VIA_NEWFN), None],
                3 => vec![Some(VIA_ARR), Some(VIA_TUPLE), None],
                5 => vec![Some(VIA_ARR), Some(VIA_NEWFN), None],
                _ => vec![Some(VIA_ARR), None],
            };
            for via in vias {
                for k in 0..n {
                    for (cname, w) in classes.iter() {
                        let first = match via {
                            Some(v) => Op::New { dst: 0, n, via: v, words: tagged(0) },
                            None => Op::NewDefault { dst: 0, n },
                        };
                        out.push((format!("setter {} slot {} via {:?} word {}", SIZE_NAMES[n as usize], k, via, cname), vec![first, Op::Set { r: 0, k, w: *w }]));
                    }
                }
                // all setters in sequence, ascending and descending, on one object
                if let Some(v) = via {
                    let mut asc = vec![Op::New { dst: 0, n, via: v, words: tagged(0) }];
                    let mut desc = asc.clone();
                    for k in 0..n {
                        asc.push(Op::Set { r: 0, k, w: tag(k as u32 + 1, k as u32) });
                        desc.push(Op::Set { r: 0, k: n - 1 - k, w: tag(k as u32 + 1, (n - 1 - k) as u32) });
                    }
                    out.push((format!("all setters ascending {}", SIZE_NAMES[n as usize]), asc));
                    out.push((format!("all setters descending {}", SIZE_NAMES[n as usize]), desc));
                }
            }
            // constructors with every real card in every slot (a card-specific fault shows here)
            for c in 0..52usize {
                let mut w = [0u32; 7];
                for k in 0..n as usize {
                    w[k] = card_word((c + k * 7) % 52);
                }
                out.push((format!("construct {} from cards starting at deck index {}", SIZE_NAMES[n as usize], c), vec![Op::New { dst: 0, n, via: VIA_ARR, words: w }]));
            }
            // every real card through every setter
            for k in 0..n {
                let mut ops = vec![Op::New { dst: 0, n, via: VIA_ARR, words: tagged(0) }];
                for c in 0..52usize {
                    ops.push(Op::Set { r: 0, k, w: card_word(c) });
                }
                out.push((format!("every card through {} slot {}", SIZE_NAMES[n as usize], k), ops));
            }
        }
        // composite constructors with all-distinct tagged words, then mutation of sources
        out.push((
            "six from parts, then mutate the parts".into(),
            vec![
                Op::New { dst: 1, n: 2, via: VIA_NEWFN, words: tagged(1) },
                Op::New { dst: 2, n: 3, via: VIA_TUPLE, words: tagged(2) },
                Op::Compose6 { dst: 0, one: tag(9, 9), two: 1, three: 2 },
                Op::Set { r: 1, k: 0, w: tag(10, 0) },
                Op::Set { r: 2, k: 2, w: tag(11, 2) },
                Op::Set { r: 0, k: 5, w: tag(12, 5) },
            ],
        ));
        out.push((
            "seven from parts, then mutate the parts".into(),
            vec![
                Op::New { dst: 1, n: 2, via: VIA_ARR, words: tagged(1) },
                Op::New { dst: 2, n: 5, via: VIA_NEWFN, words: tagged(2) },
                Op::Compose7 { dst: 0, two: 1, five: 2 },
                Op::Set { r: 1, k: 1, w: tag(10, 1) },
                Op::Set { r: 2, k: 4, w: tag(11, 4) },
                Op::Set { r: 0, k: 6, w: tag(12, 6) },
            ],
        ));
        // composite constructors whose parts share words (a de-duplicating constructor shows here)
        let c = |i: usize| card_word(i);
        out.push((
            "seven from parts that share a card".into(),
            vec![
                Op::New { dst: 1, n: 2, via: VIA_ARR, words: [c(0), c(1), 0, 0, 0, 0, 0] },
                Op::New { dst: 2, n: 5, via: VIA_ARR, words: [c(1), c(0), c(2), c(2), 0, 0, 0] },
                Op::Compose7 { dst: 0, two: 1, five: 2 },
            ],
        ));
        out.push((
            "six from parts that share a card".into(),
            vec![
                Op::New { dst: 1, n: 2, via: VIA_ARR, words: [c(5), c(5), 0, 0, 0, 0, 0] },
                Op::New { dst: 2, n: 3, via: VIA_ARR, words: [c(5), 0, c(6), 0, 0, 0, 0] },
                Op::Compose6 { dst: 0, one: c(5), two: 1, three: 2 },
            ],
        ));
        // every in-range index tuple for five-slot selection (6^5 and 7^5)
        for n in [6u8, 7u8] {
            let total = (n as u32).pow(5);
            let mut ops = vec![Op::New { dst: 0, n, via: VIA_ARR, words: tagged(0) }];
            let mut batch = 0;
            for t in 0..total {
                let mut x = t;
                let mut idx = [0u8; 5];
                for j in (0..5).rev() {
                    idx[j] = (x % n as u32) as u8;
                    x /= n as u32;
                }
                ops.push(Op::Select { dst: 1, src: 0, idx });
                if ops.len() == 40 || t + 1 == total {
                    out.push((format!("selection from {} tuples batch {}", SIZE_NAMES[n as usize], batch), std::mem::replace(&mut ops, vec![Op::New { dst: 0, n, via: VIA_ARR, words: tagged(0) }])));
                    batch += 1;
                }
            }
        }
        // state x written word x slot: a register whose slot j holds card/blank `a` (tags elsewhere)
        // receives card/blank `b` in slot k, for every a, b in {52 cards, blank} and every (j, k)
        for n in 2..=7u8 {
            for j in 0..n {
                for k in 0..n {
                    let mut ops: Vec<Op> = Vec::new();
                    for a in 0..53usize {
                        let wa = if a < 52 { card_word(a) } else { 0 };
                        let mut w = tagged(0);
                        w[j as usize] = wa;
                        ops.push(Op::New { dst: 0, n, via: VIA_ARR, words: w });
                        for b in 0..53usize {
                            let wb = if b < 52 { card_word(b) } else { 0 };
                            ops.push(Op::Set { r: 0, k, w: wb });
                            if j == k || b % 13 == 12 {
                                // restore so that the next writes again meet `a` in slot j
                                ops.push(Op::New { dst: 0, n, via: VIA_ARR, words: w });
                            }
                        }
                    }
                    out.push((format!("content x word sweep {} holds-at {} writes-at {}", SIZE_NAMES[n as usize], j, k), ops));
                }
            }
        }
        // boundary words through every setter and every constructor kind
        let boundary = boundary_words();
        for n in 2..=7u8 {
            let vias: &[u8] = match n {
                2 => &[VIA_ARR, VIA_REF, VIA_NEWFN],
                3 => &[VIA_ARR, VIA_TUPLE],
                5 => &[VIA_ARR, VIA_NEWFN],
                _ => &[VIA_ARR],
            };
            for via in vias {
                let mut ops = Vec::new();
                for (i, bw) in boundary.iter().enumerate() {
                    let mut w = [0u32; 7];
                    for k in 0..n as usize {
                        w[k] = boundary[(i + k * 5) % boundary.len()];
                    }
                    w[i % n as usize] = *bw;
                    ops.push(Op::New { dst: 0, n, via: *via, words: w });
                    ops.push(Op::Set { r: 0, k: (i % n as usize) as u8, w: boundary[(i * 7 + 3) % boundary.len()] });
                    ops.push(Op::Set { r: 0, k: ((i + 1) % n as usize) as u8, w: *bw });
                }
                out.push((format!("boundary words {} via {}", SIZE_NAMES[n as usize], via), ops));
            }
        }
        // constructors from ordered / all-equal real cards (a "looks sorted already" or "looks valid" shortcut shows here)
        for n in 2..=7u8 {
            let vias: &[u8] = match n {
                2 => &[VIA_ARR, VIA_REF, VIA_NEWFN],
                3 => &[VIA_ARR, VIA_TUPLE],
                5 => &[VIA_ARR, VIA_NEWFN],
                _ => &[VIA_ARR],
            };
            let mut ops = Vec::new();
            for via in vias {
                for start in 0..46usize {
                    let mut asc = [0u32; 7];
                    let mut desc = [0u32; 7];
                    let mut same = [0u32; 7];
                    let mut blank_in = [0u32; 7];
                    for k in 0..n as usize {
                        // deck index grows = word shrinks within a suit; use sorted words explicitly
                        desc[k] = card_word(start + k);
                        same[k] = card_word(start);
                        blank_in[k] = if k == start % n as usize { 0 } else { card_word(start + k) };
                    }
                    let mut sorted: Vec<u32> = desc[..n as usize].to_vec();
                    sorted.sort_unstable();
                    asc[..n as usize].copy_from_slice(&sorted);
                    sorted.reverse();
                    desc[..n as usize].copy_from_slice(&sorted);
                    for w in [asc, desc, same, blank_in] {
                        ops.push(Op::New { dst: 0, n, via: *via, words: w });
                    }
                }
            }
            out.push((format!("ordered and all-equal card arrays {}", SIZE_NAMES[n as usize]), ops));
        }
        // composite constructors: a blank at each position, and the same card at each pair of positions
        for blank_at in 0..8usize {
            let mut w = [0u32; 7];
            for k in 0..7 {
                w[k] = if k == blank_at { 0 } else { card_word(k * 7 + 1) };
            }
            out.push((
                format!("composites with blank at position {}", blank_at),
                vec![
                    Op::New { dst: 1, n: 2, via: VIA_ARR, words: [w[0], w[1], 0, 0, 0, 0, 0] },
                    Op::New { dst: 2, n: 5, via: VIA_ARR, words: [w[2], w[3], w[4], w[5], w[6], 0, 0] },
                    Op::Compose7 { dst: 0, two: 1, five: 2 },
                    Op::New { dst: 3, n: 2, via: VIA_ARR, words: [w[1], w[2], 0, 0, 0, 0, 0] },
                    Op::New { dst: 4, n: 3, via: VIA_ARR, words: [w[3], w[4], w[5], 0, 0, 0, 0] },
                    Op::Compose6 { dst: 5, one: w[0], two: 3, three: 4 },
                ],
            ));
        }
        for i in 0..7usize {
            for j in (i + 1)..7 {
                let mut w = [0u32; 7];
                for k in 0..7 {
                    w[k] = card_word(k * 5 + 2);
                }
                w[j] = w[i];
                let mut blanks = [0u32; 7];
                blanks[i] = card_word(9);
                blanks[j] = card_word(9);
                let mut ops = Vec::new();
                for ww in [w, blanks] {
                    ops.push(Op::New { dst: 1, n: 2, via: VIA_ARR, words: [ww[0], ww[1], 0, 0, 0, 0, 0] });
                    ops.push(Op::New { dst: 2, n: 5, via: VIA_ARR, words: [ww[2], ww[3], ww[4], ww[5], ww[6], 0, 0] });
                    ops.push(Op::Compose7 { dst: 0, two: 1, five: 2 });
                    if j < 6 {
                        ops.push(Op::New { dst: 3, n: 2, via: VIA_ARR, words: [ww[1], ww[2], 0, 0, 0, 0, 0] });
                        ops.push(Op::New { dst: 4, n: 3, via: VIA_ARR, words: [ww[3], ww[4], ww[5], 0, 0, 0, 0] });
                        ops.push(Op::Compose6 { dst: 5, one: ww[0], two: 3, three: 4 });
                    }
                }
                out.push((format!("composites with the same card at positions {} and {}", i, j), ops));
            }
        }
        // every selection tuple again, from registers holding real cards, blanks and a repeated card
        for n in [6u8, 7u8] {
            let contents: [[u32; 7]; 3] = [
                [c(0), c(13), c(26), c(39), c(12), c(25), c(51)],
                [c(4), 0, c(17), 0, c(30), c(43), 0],
                [c(8), c(8), c(21), c(34), c(8), c(47), c(21)],
            ];
            for (ci, content) in contents.iter().enumerate() {
                let total = (n as u32).pow(5);
                let mut ops = vec![Op::New { dst: 0, n, via: VIA_ARR, words: *content }];
                for t in 0..total {
                    let mut x = t;
                    let mut idx = [0u8; 5];
                    for j in (0..5).rev() {
                        idx[j] = (x % n as u32) as u8;
                        x /= n as u32;
                    }
                    ops.push(Op::Select { dst: 1, src: 0, idx });
                }
                out.push((format!("all selection tuples from {} holding content {}", SIZE_NAMES[n as usize], ci), ops));
            }
        }
        // boundary / marker-like words at every position of the composite constructors
        for (bi, bw) in boundary_words().into_iter().chain([0u32, u32::MAX]).enumerate() {
            let mut ops = Vec::new();
            for p in 0..7usize {
                let mut w = tagged(bi as u32 & 0xFF);
                w[p] = bw;
                ops.push(Op::New { dst: 1, n: 2, via: VIA_ARR, words: [w[0], w[1], 0, 0, 0, 0, 0] });
                ops.push(Op::New { dst: 2, n: 5, via: VIA_ARR, words: [w[2], w[3], w[4], w[5], w[6], 0, 0] });
                ops.push(Op::Compose7 { dst: 0, two: 1, five: 2 });
                if p < 6 {
                    ops.push(Op::New { dst: 3, n: 2, via: VIA_ARR, words: [w[1], w[2], 0, 0, 0, 0, 0] });
                    ops.push(Op::New { dst: 4, n: 3, via: VIA_ARR, words: [w[3], w[4], w[5], 0, 0, 0, 0] });
                    ops.push(Op::Compose6 { dst: 5, one: w[0], two: 3, three: 4 });
                }
            }
            out.push((format!("composites with word {:#010x} at each position", bw), ops));
        }
        // seven distinct real cards through the composites and the constructors, one (or all) of them
        // carrying a pair / trips / quads flag — the shape a "valid hand" shortcut would look for
        for (fi, flag) in [0x2000_0000u32, 0x4000_0000, 0x8000_0000, 0xE000_0000].into_iter().enumerate() {
            let mut ops = Vec::new();
            for p in 0..8usize {
                for start in [0usize, 11, 23] {
                    let mut w = [0u32; 7];
                    for k in 0..7 {
                        w[k] = card_word((start + k * 5) % 52) | if p == 7 || p == k { flag } else { 0 };
                    }
                    ops.push(Op::New { dst: 1, n: 2, via: VIA_NEWFN, words: [w[0], w[1], 0, 0, 0, 0, 0] });
                    ops.push(Op::New { dst: 2, n: 5, via: VIA_NEWFN, words: [w[2], w[3], w[4], w[5], w[6], 0, 0] });
                    ops.push(Op::Compose7 { dst: 0, two: 1, five: 2 });
                    ops.push(Op::New { dst: 4, n: 3, via: VIA_TUPLE, words: [w[3], w[4], w[5], 0, 0, 0, 0] });
                    ops.push(Op::Compose6 { dst: 5, one: w[0], two: 1, three: 4 });
                    ops.push(Op::New { dst: 6, n: 7, via: VIA_ARR, words: w });
                    ops.push(Op::Select { dst: 7, src: 6, idx: [6, 5, 4, 1, 0] });
                    ops.push(Op::New { dst: 6, n: 6, via: VIA_ARR, words: w });
                    ops.push(Op::New { dst: 6, n: 4, via: VIA_ARR, words: w });
                }
            }
            out.push((format!("distinct cards with flag {} through composites and constructors", fi), ops));
        }
        // consecutive states of one Six / Seven that differ in one bit of each of two slots: a
        // cache, memo or checksum keyed on a weak (linear) digest of the words confuses such pairs.
        // The standing selection invariant I5 reads both states back to back.
        for n in [6u8, 7u8] {
            let base = tagged(3);
            for i in 0..n as usize {
                for j in (i + 1)..n as usize {
                    let mut ops = vec![Op::New { dst: 0, n, via: VIA_ARR, words: base }];
                    for b1 in 0..32 {
                        for b2 in 0..32 {
                            let mut w = base;
                            w[i] ^= 1u32 << b1;
                            w[j] ^= 1u32 << b2;
                            ops.push(Op::New { dst: 0, n, via: VIA_ARR, words: w });
                            ops.push(Op::New { dst: 0, n, via: VIA_ARR, words: base });
                        }
                    }
                    out.push((format!("two-bit deltas between consecutive states of a {} (slots {} and {})", SIZE_NAMES[n as usize], i, j), ops));
                }
            }
        }
        // clone / clone_from: the destination holds a permutation of the source's words (a sorted copy,
        // or a copy in which two words were swapped through the setters), or something unrelated
        for n in 2..=7u8 {
            let mut w = [0u32; 7];
            for k in 0..n as usize {
                w[k] = card_word((k * 11 + 5) % 52); // not in sorted order
            }
            let mut ops = vec![
                Op::New { dst: 0, n, via: VIA_ARR, words: w },
                Op::CloneOut { dst: 1, src: 0 },
                Op::SortInPlace { r: 1 },
                Op::CloneFrom { dst: 1, src: 0 }, // sorted copy takes the unsorted original back
                Op::CopyOut { dst: 2, src: 0 },
                Op::Set { r: 2, k: 0, w: w[n as usize - 1] },
                Op::Set { r: 2, k: n - 1, w: w[0] },
                Op::CloneFrom { dst: 2, src: 0 }, // swapped copy takes the original back
                Op::New { dst: 3, n, via: VIA_ARR, words: tagged(9) },
                Op::CloneFrom { dst: 3, src: 0 },
                Op::CloneFrom { dst: 0, src: 3 },
            ];
            for k in 0..n {
                ops.push(Op::Set { r: 3, k, w: tag(20 + k as u32, k as u32) });
                ops.push(Op::CloneFrom { dst: 1, src: 3 });
            }
            out.push((format!("clone and clone_from {}", SIZE_NAMES[n as usize]), ops));
        }
        // environment calls between the judged operations: rank, then read back and select; write a
        // slot, rank again, read back (anything an evaluation remembers must not leak into the reads)
        for n in [5u8, 6, 7] {
            for start in [0usize, 9, 26] {
                let mut w = [0u32; 7];
                for k in 0..7 {
                    w[k] = card_word((start + k * 5) % 52);
                }
                let mut ops = vec![Op::New { dst: 0, n, via: VIA_ARR, words: w }];
                for which in 0..10u8 {
                    ops.push(Op::Env { r: 0, which });
                    if n >= 6 && which < 3 {
                        // right after an evaluation: every combination the evaluator itself tries
                        // (the winning one is among them)
                        if n == 6 {
                            for row in Six::FIVE_CARD_PERMUTATIONS {
                                ops.push(Op::Select { dst: 1, src: 0, idx: row });
                            }
                        } else {
                            for row in Seven::FIVE_CARD_PERMUTATIONS {
                                ops.push(Op::Select { dst: 1, src: 0, idx: row });
                            }
                        }
                        ops.push(Op::Env { r: 0, which });
                    }
                    if n >= 6 {
                        ops.push(Op::Select { dst: 1, src: 0, idx: [4, 3, 2, 1, 0] });
                        ops.push(Op::Select { dst: 1, src: 0, idx: [0, 1, 2, 3, n - 1] });
                        ops.push(Op::Select { dst: 1, src: 0, idx: [n - 1, n - 2, 2, 1, 0] });
                    }
                    ops.push(Op::Set { r: 0, k: which % n, w: card_word((start + 31 + which as usize) % 52) });
                }
                out.push((format!("environment calls on a {} of real cards starting at {}", SIZE_NAMES[n as usize], start), ops));
            }
        }
        for n in 2..=7u8 {
            let mut ops = vec![Op::New { dst: 0, n, via: VIA_ARR, words: tagged(4) }, Op::NewDefault { dst: 1, n }];
            for which in 0..10u8 {
                ops.push(Op::Env { r: 0, which });
                ops.push(Op::Env { r: 1, which });
            }
            out.push((format!("environment calls on a {} of non-card words and on a default one", SIZE_NAMES[n as usize]), ops));
        }
        // copies are independent
        for n in 2..=7u8 {
            out.push((
                format!("copy independence {}", SIZE_NAMES[n as usize]),
                vec![
                    Op::New { dst: 0, n, via: VIA_ARR, words: tagged(0) },
                    Op::CopyOut { dst: 1, src: 0 },
                    Op::Set { r: 0, k: 0, w: tag(2, 0) },
                    Op::Set { r: 1, k: n - 1, w: tag(3, (n - 1) as u32) },
                ],
            ));
        }
        // the caller does not look between mutations: what a read leaves behind (or what a
        // missing read fails to refresh) must not matter to the next write. For every size and
        // slot: replace the whole register unseen and write back the word last seen there; write
        // and restore unseen; two different slots unseen; a single look through each read path
        // first; the same across two registers; replacement by copy, clone_from and selection.
        for n in 2u8..=7 {
            let a = tagged(1);
            let b = tagged(2);
            for k in 0..n {
                let j = (k + 1) % n;
                let mut ops = vec![Op::New { dst: 0, n, via: VIA_ARR, words: a }];
                ops.extend([Op::Quiet { n: 2 }, Op::New { dst: 0, n, via: VIA_ARR, words: b }, Op::Set { r: 0, k, w: a[k as usize] }]);
                ops.extend([Op::Quiet { n: 2 }, Op::Set { r: 0, k, w: tag(30, k as u32) }, Op::Set { r: 0, k, w: a[k as usize] }]);
                ops.extend([Op::Quiet { n: 2 }, Op::Set { r: 0, k, w: tag(31, k as u32) }, Op::Set { r: 0, k: j, w: tag(32, j as u32) }]);
                ops.extend([Op::Quiet { n: 3 }, Op::Set { r: 0, k, w: tag(33, k as u32) }, Op::Set { r: 0, k: j, w: tag(33, k as u32) }, Op::Set { r: 0, k, w: tag(34, k as u32) }]);
                out.push((format!("unseen mutations {} slot {}", SIZE_NAMES[n as usize], k), ops));
                for path in 0..3u8 {
                    let mut ops = vec![Op::New { dst: 0, n, via: VIA_ARR, words: a }, Op::New { dst: 1, n, via: VIA_ARR, words: b }];
                    // look at one slot only, replace the register, write the seen word back
                    ops.extend([Op::Quiet { n: 3 }, Op::Peek { r: 0, k, path }, Op::New { dst: 0, n, via: VIA_ARR, words: b }, Op::Set { r: 0, k, w: a[k as usize] }]);
                    // look at one register, write what was seen into the same slot of the other
                    ops.extend([Op::Quiet { n: 2 }, Op::Peek { r: 0, k, path }, Op::Set { r: 1, k, w: a[k as usize] }]);
                    // look, write something else, look again, restore, all without a sweep
                    ops.extend([Op::Quiet { n: 4 }, Op::Peek { r: 1, k: j, path }, Op::Set { r: 1, k: j, w: tag(40, j as u32) }, Op::Peek { r: 1, k: j, path }, Op::Set { r: 1, k: j, w: b[j as usize] }]);
                    // replacement by copy / clone_from instead of a constructor
                    ops.extend([Op::Quiet { n: 3 }, Op::Peek { r: 1, k, path }, Op::CopyOut { dst: 1, src: 0 }, Op::Set { r: 1, k, w: a[k as usize] }]);
                    ops.extend([Op::New { dst: 2, n, via: VIA_ARR, words: tagged(3) }, Op::Quiet { n: 3 }, Op::Peek { r: 2, k, path }, Op::CloneFrom { dst: 2, src: 0 }, Op::Set { r: 2, k, w: tag(3, k as u32) }]);
                    out.push((format!("single look then unseen mutations {} slot {} path {}", SIZE_NAMES[n as usize], k, path), ops));
                }
            }
        }
        for n in [6u8, 7] {
            // a five selected twice into the same register with no read between, then written
            let a = tagged(1);
            let mut ops = vec![Op::New { dst: 0, n, via: VIA_ARR, words: a }];
            for k in 0..5u8 {
                ops.extend([
                    Op::Select { dst: 1, src: 0, idx: [0, 1, 2, 3, 4] },
                    Op::Quiet { n: 2 },
                    Op::Select { dst: 1, src: 0, idx: [n - 1, n - 2, 3, 2, 1] },
                    Op::Set { r: 1, k, w: a[k as usize] },
                ]);
            }
            out.push((format!("unseen reselection from {}", SIZE_NAMES[n as usize]), ops));
        }
        out
    }

    fn conc_history(rng: &mut Rng, shape: u64) -> Option<Vec<Op>> {
        let words = |rng: &mut Rng| {
            let mut w = [0u32; 7];
            for x in w.iter_mut() {
                *x = match rng.below(4) {
                    0 => card_word(rng.usize_below(52)),
                    1 => 0,
                    _ => 0x4000_0000 | (rng.next_u32() & 0x00FF_FFFF),
                };
            }
            w
        };
        let n = 2 + (shape >> 4) as u8 % 6;
        let reps = 1 + (shape >> 12) as usize % 3;
        let mut ops = Vec::new();
        match shape % 6 {
            5 => {
                // a long run of setter calls on one object (something that only goes wrong after many
                // calls by the other callers — a ring lapped, a counter wrapped — needs room)
                ops.push(Op::New { dst: 0, n, via: VIA_ARR, words: words(rng) });
                for _ in 0..(60 + rng.usize_below(60)) {
                    ops.push(Op::Set { r: 0, k: rng.below(n as u64) as u8, w: words(rng)[0] });
                }
            }
            0 => {
                // setters on one size, each write made twice
                ops.push(Op::New { dst: 0, n, via: VIA_ARR, words: words(rng) });
                for _ in 0..3 {
                    let k = rng.below(n as u64) as u8;
                    let w = words(rng)[0];
                    for _ in 0..=reps {
                        ops.push(Op::Set { r: 0, k, w });
                    }
                }
            }
            1 => {
                let (a, b) = (words(rng), words(rng));
                ops.push(Op::New { dst: 1, n: 2, via: VIA_ARR, words: a });
                ops.push(Op::New { dst: 2, n: 5, via: VIA_ARR, words: b });
                for _ in 0..=reps {
                    ops.push(Op::Compose7 { dst: 0, two: 1, five: 2 });
                }
            }
            2 => {
                let (a, b) = (words(rng), words(rng));
                ops.push(Op::New { dst: 1, n: 2, via: VIA_ARR, words: a });
                ops.push(Op::New { dst: 2, n: 3, via: VIA_ARR, words: b });
                for _ in 0..=reps {
                    ops.push(Op::Compose6 { dst: 0, one: a[6], two: 1, three: 2 });
                }
            }
            3 => {
                let n = 6 + (shape >> 4) as u8 % 2;
                ops.push(Op::New { dst: 0, n, via: VIA_ARR, words: words(rng) });
                let mut idx = [0u8; 5];
                for i in idx.iter_mut() {
                    *i = rng.below(n as u64) as u8;
                }
                for _ in 0..=reps {
                    ops.push(Op::Select { dst: 1, src: 0, idx });
                }
            }
            _ => {
                let w = words(rng);
                for _ in 0..=reps {
                    ops.push(Op::New { dst: 0, n, via: VIA_ARR, words: w });
                }
                ops.push(Op::CloneOut { dst: 1, src: 0 });
            }
        }
        Some(ops)
    }

    fn anchored_files() -> &'static [&'static str] {
        &["/src/cards/two.rs", "/src/cards/three.rs", "/src/cards/four.rs", "/src/cards/five.rs", "/src/cards/six.rs", "/src/cards/seven.rs", "/src/cards/mod.rs"]
    }

    fn builder_kinds() -> &'static [usize] {
        &[K_NEW, K_DEFAULT]
    }

    fn op_kind(op: &Op) -> usize {
        match op {
            Op::New { .. } => K_NEW,
            Op::NewDefault { .. } => K_DEFAULT,
            Op::Set { .. } => K_SET,
            Op::Compose6 { .. } => K_COMPOSE6,
            Op::Compose7 { .. } => K_COMPOSE7,
            Op::Select { .. } => K_SELECT,
            Op::CopyOut { .. } => K_COPY,
            Op::SortInPlace { .. } => K_SORT,
            Op::CloneOut { .. } => K_CLONE,
            Op::CloneFrom { .. } => K_CLONE_FROM,
            Op::Env { .. } => K_ENV,
            Op::Quiet { .. } => K_QUIET,
            Op::Peek { .. } => K_PEEK,
        }
    }

    fn op_to_json(op: &Op) -> J {
        let u = |x: u8| J::Int(x as i128);
        match op {
            Op::New { dst, n, via, words } => J::obj()
                .with("op", J::str("New"))
                .with("dst", u(*dst))
                .with("n", u(*n))
                .with("via", J::str(["array", "array_ref", "new_fn", "tuple"][(*via as usize).min(3)]))
                .with("words", J::Arr(words[..(*n as usize).min(7)].iter().map(|w| J::hex32(*w)).collect())),
            Op::NewDefault { dst, n } => J::obj().with("op", J::str("NewDefault")).with("dst", u(*dst)).with("n", u(*n)),
            Op::Set { r, k, w } => J::obj().with("op", J::str("Set")).with("r", u(*r)).with("slot", u(*k)).with("word", J::hex32(*w)),
            Op::Compose6 { dst, one, two, three } => J::obj().with("op", J::str("Compose6")).with("dst", u(*dst)).with("one", J::hex32(*one)).with("two", u(*two)).with("three", u(*three)),
            Op::Compose7 { dst, two, five } => J::obj().with("op", J::str("Compose7")).with("dst", u(*dst)).with("two", u(*two)).with("five", u(*five)),
            Op::Select { dst, src, idx } => J::obj().with("op", J::str("Select")).with("dst", u(*dst)).with("src", u(*src)).with("idx", J::Arr(idx.iter().map(|i| u(*i)).collect())),
            Op::CopyOut { dst, src } => J::obj().with("op", J::str("CopyOut")).with("dst", u(*dst)).with("src", u(*src)),
            Op::SortInPlace { r } => J::obj().with("op", J::str("SortInPlace")).with("r", u(*r)),
            Op::CloneOut { dst, src } => J::obj().with("op", J::str("CloneOut")).with("dst", u(*dst)).with("src", u(*src)),
            Op::CloneFrom { dst, src } => J::obj().with("op", J::str("CloneFrom")).with("dst", u(*dst)).with("src", u(*src)),
            Op::Env { r, which } => J::obj().with("op", J::str("Env")).with("r", u(*r)).with("which", u(*which)),
            Op::Quiet { n } => J::obj().with("op", J::str("Quiet")).with("n", u(*n)),
            Op::Peek { r, k, path } => J::obj().with("op", J::str("Peek")).with("r", u(*r)).with("slot", u(*k)).with("path", J::str(["accessor", "to_arr", "iter"][(*path as usize) % 3])),
        }
    }

    fn op_from_json(j: &J) -> Result<Op, String> {
        let name = j.get("op").and_then(|x| x.as_str()).ok_or("op: missing name")?;
        let u8f = |k: &str| -> Result<u8, String> { j.get(k).and_then(|x| x.as_u64()).map(|x| x as u8).ok_or(format!("{}: missing field {}", name, k)) };
        let u32f = |k: &str| -> Result<u32, String> { j.get(k).and_then(|x| x.as_u64()).map(|x| x as u32).ok_or(format!("{}: missing field {}", name, k)) };
        match name {
            "New" => {
                let n = u8f("n")?;
                let via = match j.get("via").and_then(|x| x.as_str()).unwrap_or("array") {
                    "array_ref" => VIA_REF,
                    "new_fn" => VIA_NEWFN,
                    "tuple" => VIA_TUPLE,
                    _ => VIA_ARR,
                };
                let arr = j.get("words").and_then(|x| x.as_arr()).ok_or("New: missing words")?;
                let mut words = [0u32; 7];
                for (k, x) in arr.iter().take(7).enumerate() {
                    words[k] = x.as_u64().ok_or("New: bad word")? as u32;
                }
                Ok(Op::New { dst: u8f("dst")?, n, via, words })
            }
            "NewDefault" => Ok(Op::NewDefault { dst: u8f("dst")?, n: u8f("n")? }),
            "Set" => Ok(Op::Set { r: u8f("r")?, k: u8f("slot")?, w: u32f("word")? }),
            "Compose6" => Ok(Op::Compose6 { dst: u8f("dst")?, one: u32f("one")?, two: u8f("two")?, three: u8f("three")? }),
            "Compose7" => Ok(Op::Compose7 { dst: u8f("dst")?, two: u8f("two")?, five: u8f("five")? }),
            "Select" => {
                let arr = j.get("idx").and_then(|x| x.as_arr()).ok_or("Select: missing idx")?;
                if arr.len() != 5 {
                    return Err("Select: idx must have 5 entries".into());
                }
                let mut idx = [0u8; 5];
                for (k, x) in arr.iter().enumerate() {
                    idx[k] = x.as_u64().ok_or("Select: bad idx")? as u8;
                }
                Ok(Op::Select { dst: u8f("dst")?, src: u8f("src")?, idx })
            }
            "CopyOut" => Ok(Op::CopyOut { dst: u8f("dst")?, src: u8f("src")? }),
            "SortInPlace" => Ok(Op::SortInPlace { r: u8f("r")? }),
            "CloneOut" => Ok(Op::CloneOut { dst: u8f("dst")?, src: u8f("src")? }),
            "CloneFrom" => Ok(Op::CloneFrom { dst: u8f("dst")?, src: u8f("src")? }),
            "Env" => Ok(Op::Env { r: u8f("r")?, which: u8f("which")? }),
            "Quiet" => Ok(Op::Quiet { n: u8f("n")? }),
            "Peek" => {
                let path = match j.get("path").and_then(|x| x.as_str()).unwrap_or("accessor") {
                    "to_arr" => 1,
                    "iter" => 2,
                    _ => 0,
                };
                Ok(Op::Peek { r: u8f("r")?, k: u8f("slot")?, path })
            }
            other => Err(format!("unknown op {}", other)),
        }
    }

    fn simplify(op: &Op) -> Vec<Op> {
        let mut out = Vec::new();
        match op {
            Op::New { dst, n, via, words } => {
                if *via != VIA_ARR {
                    out.push(Op::New { dst: *dst, n: *n, via: VIA_ARR, words: *words });
                }
                // all words to small distinct integers, then one at a time
                let mut small = [0u32; 7];
                for k in 0..*n as usize {
                    small[k] = k as u32 + 1;
                }
                if small != *words {
                    out.push(Op::New { dst: *dst, n: *n, via: *via, words: small });
                }
                for k in 0..*n as usize {
                    if words[k] != k as u32 + 1 && words[k] != 0 {
                        let mut w = *words;
                        w[k] = k as u32 + 1;
                        out.push(Op::New { dst: *dst, n: *n, via: *via, words: w });
                    }
                }
                if *n > 2 {
                    // a smaller container, when nothing depends on the size
                    out.push(Op::New { dst: *dst, n: *n - 1, via: VIA_ARR, words: *words });
                }
            }
            Op::NewDefault { .. } => {}
            Op::Set { r, k, w } => {
                for cand in [0x11u32, 1, 0] {
                    if cand < *w {
                        out.push(Op::Set { r: *r, k: *k, w: cand });
                    }
                }
                if *k > 0 {
                    out.push(Op::Set { r: *r, k: *k - 1, w: *w });
                }
            }
            Op::Compose6 { dst, one, two, three } => {
                if *one > 0x99 {
                    out.push(Op::Compose6 { dst: *dst, one: 0x99, two: *two, three: *three });
                }
            }
            Op::Compose7 { .. } => {}
            Op::Select { dst, src, idx } => {
                for j in 0..5 {
                    if idx[j] > 0 {
                        let mut i2 = *idx;
                        i2[j] -= 1;
                        out.push(Op::Select { dst: *dst, src: *src, idx: i2 });
                        let mut i3 = *idx;
                        i3[j] = 0;
                        out.push(Op::Select { dst: *dst, src: *src, idx: i3 });
                    }
                }
            }
            Op::CopyOut { .. } | Op::SortInPlace { .. } | Op::CloneOut { .. } | Op::CloneFrom { .. } => {}
            Op::Env { r, which } => {
                if *which > 0 {
                    out.push(Op::Env { r: *r, which: 0 });
                }
            }
            Op::Quiet { n } => {
                if *n > 1 {
                    out.push(Op::Quiet { n: *n - 1 });
                }
            }
            Op::Peek { r, k, path } => {
                if *path % 3 != 0 {
                    out.push(Op::Peek { r: *r, k: *k, path: 0 });
                }
            }
        }
        out
    }

    fn describe() -> J {
        J::obj()
            .with(
                "components_real",
                J::Arr(
                    [
                        "Two/Three/Four/Five/Six/Seven: From<[u32; N]>, Two::from(&[u32; 2]), Two::new, Five::new, Three tuple literal, Default",
                        "all 27 setters set_first .. set_seventh",
                        "all positional accessors first() .. seventh() (first() via HandValidator)",
                        "to_arr(), HandValidator::iter(), Three's public field",
                        "Six::from_1_and_2_and_3, Seven::new",
                        "Permutator::five_from_permutation on Six and Seven",
                        "Copy assignment, Clone::clone and Clone::clone_from of containers; HandValidator::sort_in_place as an environment operation (result not judged)",
                        "environment operations: ranking (HandRanker), validity, uniqueness, sorted copy, suit shift, Two's starting-hand helpers — called between the judged operations, results and panics ignored",
                        "first(), iter() and five_from_permutation both by method syntax and through the fully qualified trait paths (HandValidator::first, HandValidator::iter, Permutator::five_from_permutation)",
                    ]
                    .iter()
                    .map(|s| J::str(s))
                    .collect(),
                ),
            )
            .with("components_stub", J::Arr(vec![]))
            .with("reference_model", J::str("one plain [u32; N] per register; setter = array store, composition = concatenation, selection = indexing, copy = array copy"))
            .with(
                "invariants",
                J::Arr(
                    [
                        "I1 to_arr() equals the model",
                        "I2 each positional accessor equals model[k]",
                        "I3 iter() yields exactly N items equal to the model in order",
                        "I4 Three's public field equals the model",
                        "I5 on every live Six/Seven, three standing selections (identity and reversed tuple by method syntax, a scrambled tuple through Permutator::five_from_permutation; opposite order on odd and even steps) return the model's words at their indexes",
                        "frame: every register not named by the operation still satisfies I1-I4 against its unchanged model",
                        "unobserved stretches: in one seeded history in four and in the directed scenarios the read sweep is left out after up to eight consecutive operations (Quiet), and single slots are read through a single path (Peek, judged at once); the sweep after the stretch judges everything done in it, so mutations follow one another with no read, or with exactly one chosen read, in between",
                    ]
                    .iter()
                    .map(|s| J::str(s))
                    .collect(),
                ),
            )
            .with(
                "not_demanded",
                J::Arr(
                    ["contents of Default (model takes the observed value)", "result of sort_in_place (model re-reads)", "PartialEq/Ord/Hash/serde", "out-of-range selection indexes", "text constructors"].iter().map(|s| J::str(s)).collect(),
                ),
            )
    }
}
