//! A small JSON value with a writer and a parser. The harness has no
//! dependency besides ckc-rs itself (and the `log` facade it uses); 64-bit quantities that do not fit a JSON
//! double exactly (bit-sets, digests) are written as "0x…" strings.

use std::fmt::Write as _;

#[derive(Clone, Debug, PartialEq)]
pub enum J {
    Null,
    Bool(bool),
    Int(i128),
    Float(f64),
    Str(String),
    Arr(Vec<J>),
    Obj(Vec<(String, J)>),
}

impl J {
    pub fn obj() -> J {
        J::Obj(Vec::new())
    }

    pub fn set(&mut self, k: &str, v: J) -> &mut J {
        if let J::Obj(items) = self {
            if let Some(slot) = items.iter_mut().find(|(kk, _)| kk == k) {
                slot.1 = v;
            } else {
                items.push((k.to_string(), v));
            }
        } else {
            panic!("J::set on non-object");
        }
        self
    }

    pub fn with(mut self, k: &str, v: J) -> J {
        self.set(k, v);
        self
    }

    pub fn get(&self, k: &str) -> Option<&J> {
        match self {
            J::Obj(items) => items.iter().find(|(kk, _)| kk == k).map(|(_, v)| v),
            _ => None,
        }
    }

    pub fn str(s: &str) -> J {
        J::Str(s.to_string())
    }

    pub fn u(x: u64) -> J {
        J::Int(x as i128)
    }

    pub fn hex64(x: u64) -> J {
        J::Str(format!("0x{:016x}", x))
    }

    pub fn hex32(x: u32) -> J {
        J::Str(format!("0x{:08x}", x))
    }

    pub fn as_u64(&self) -> Option<u64> {
        match self {
            J::Int(i) if *i >= 0 && *i <= u64::MAX as i128 => Some(*i as u64),
            J::Str(s) => parse_hex(s),
            _ => None,
        }
    }

    pub fn as_str(&self) -> Option<&str> {
        match self {
            J::Str(s) => Some(s),
            _ => None,
        }
    }

    pub fn as_arr(&self) -> Option<&[J]> {
        match self {
            J::Arr(a) => Some(a),
            _ => None,
        }
    }

    pub fn as_bool(&self) -> Option<bool> {
        match self {
            J::Bool(b) => Some(*b),
            _ => None,
        }
    }

    pub fn pretty(&self) -> String {
        let mut s = String::new();
        self.write(&mut s, 0, true);
        s.push('\n');
        s
    }

    pub fn compact(&self) -> String {
        let mut s = String::new();
        self.write(&mut s, 0, false);
        s
    }

    fn write(&self, out: &mut String, ind: usize, pretty: bool) {
        match self {
            J::Null => out.push_str("null"),
            J::Bool(b) => out.push_str(if *b { "true" } else { "false" }),
            J::Int(i) => {
                let _ = write!(out, "{}", i);
            }
            J::Float(f) => {
                if f.is_finite() {
                    let t = format!("{}", f);
                    out.push_str(&t);
                    if !t.contains(['.', 'e', 'E']) {
                        out.push_str(".0");
                    }
                } else {
                    out.push_str("null");
                }
            }
            J::Str(s) => write_str(out, s),
            J::Arr(a) => {
                if a.is_empty() {
                    out.push_str("[]");
                    return;
                }
                // short arrays of scalars stay on one line
                let scalar = a.iter().all(|x| !matches!(x, J::Arr(_) | J::Obj(_)));
                out.push('[');
                for (i, x) in a.iter().enumerate() {
                    if i > 0 {
                        out.push(',');
                        if scalar && pretty {
                            out.push(' ');
                        }
                    }
                    if pretty && !scalar {
                        out.push('\n');
                        push_indent(out, ind + 1);
                    }
                    x.write(out, ind + 1, pretty);
                }
                if pretty && !scalar {
                    out.push('\n');
                    push_indent(out, ind);
                }
                out.push(']');
            }
            J::Obj(items) => {
                if items.is_empty() {
                    out.push_str("{}");
                    return;
                }
                out.push('{');
                for (i, (k, v)) in items.iter().enumerate() {
                    if i > 0 {
                        out.push(',');
                    }
                    if pretty {
                        out.push('\n');
                        push_indent(out, ind + 1);
                    }
                    write_str(out, k);
                    out.push(':');
                    if pretty {
                        out.push(' ');
                    }
                    v.write(out, ind + 1, pretty);
                }
                if pretty {
                    out.push('\n');
                    push_indent(out, ind);
                }
                out.push('}');
            }
        }
    }
}

fn push_indent(out: &mut String, n: usize) {
    for _ in 0..n {
        out.push(' ');
    }
}

fn write_str(out: &mut String, s: &str) {
    out.push('"');
    for c in s.chars() {
        match c {
            '"' => out.push_str("\\\""),
            '\\' => out.push_str("\\\\"),
            '\n' => out.push_str("\\n"),
            '\r' => out.push_str("\\r"),
            '\t' => out.push_str("\\t"),
            c if (c as u32) < 0x20 => {
                let _ = write!(out, "\\u{:04x}", c as u32);
            }
            c => out.push(c),
        }
    }
    out.push('"');
}

pub fn parse_hex(s: &str) -> Option<u64> {
    let t = s.strip_prefix("0x")?;
    u64::from_str_radix(t, 16).ok()
}

pub fn parse(text: &str) -> Result<J, String> {
    let mut p = Parser { b: text.as_bytes(), i: 0 };
    p.ws();
    let v = p.value()?;
    p.ws();
    if p.i != p.b.len() {
        return Err(format!("trailing data at byte {}", p.i));
    }
    Ok(v)
}

struct Parser<'a> {
    b: &'a [u8],
    i: usize,
}

impl<'a> Parser<'a> {
    fn ws(&mut self) {
        while self.i < self.b.len() && matches!(self.b[self.i], b' ' | b'\n' | b'\r' | b'\t') {
            self.i += 1;
        }
    }

    fn eat(&mut self, c: u8) -> Result<(), String> {
        if self.i < self.b.len() && self.b[self.i] == c {
            self.i += 1;
            Ok(())
        } else {
            Err(format!("expected '{}' at byte {}", c as char, self.i))
        }
    }

    fn lit(&mut self, s: &str, v: J) -> Result<J, String> {
        if self.b[self.i..].starts_with(s.as_bytes()) {
            self.i += s.len();
            Ok(v)
        } else {
            Err(format!("bad literal at byte {}", self.i))
        }
    }

    fn value(&mut self) -> Result<J, String> {
        if self.i >= self.b.len() {
            return Err("unexpected end".into());
        }
        match self.b[self.i] {
            b'n' => self.lit("null", J::Null),
            b't' => self.lit("true", J::Bool(true)),
            b'f' => self.lit("false", J::Bool(false)),
            b'"' => Ok(J::Str(self.string()?)),
            b'[' => {
                self.i += 1;
                let mut a = Vec::new();
                self.ws();
                if self.i < self.b.len() && self.b[self.i] == b']' {
                    self.i += 1;
                    return Ok(J::Arr(a));
                }
                loop {
                    self.ws();
                    a.push(self.value()?);
                    self.ws();
                    if self.i < self.b.len() && self.b[self.i] == b',' {
                        self.i += 1;
                        continue;
                    }
                    self.eat(b']')?;
                    return Ok(J::Arr(a));
                }
            }
            b'{' => {
                self.i += 1;
                let mut items = Vec::new();
                self.ws();
                if self.i < self.b.len() && self.b[self.i] == b'}' {
                    self.i += 1;
                    return Ok(J::Obj(items));
                }
                loop {
                    self.ws();
                    let k = self.string()?;
                    self.ws();
                    self.eat(b':')?;
                    self.ws();
                    let v = self.value()?;
                    items.push((k, v));
                    self.ws();
                    if self.i < self.b.len() && self.b[self.i] == b',' {
                        self.i += 1;
                        continue;
                    }
                    self.eat(b'}')?;
                    return Ok(J::Obj(items));
                }
            }
            _ => self.number(),
        }
    }

    fn number(&mut self) -> Result<J, String> {
        let start = self.i;
        let mut is_float = false;
        while self.i < self.b.len() {
            match self.b[self.i] {
                b'0'..=b'9' | b'-' | b'+' => self.i += 1,
                b'.' | b'e' | b'E' => {
                    is_float = true;
                    self.i += 1;
                }
                _ => break,
            }
        }
        let s = std::str::from_utf8(&self.b[start..self.i]).map_err(|e| e.to_string())?;
        if s.is_empty() {
            return Err(format!("unexpected byte at {}", start));
        }
        if is_float {
            s.parse::<f64>().map(J::Float).map_err(|e| format!("{} at byte {}", e, start))
        } else {
            s.parse::<i128>().map(J::Int).map_err(|e| format!("{} at byte {}", e, start))
        }
    }

    fn string(&mut self) -> Result<String, String> {
        self.eat(b'"')?;
        let mut out: Vec<u8> = Vec::new();
        loop {
            if self.i >= self.b.len() {
                return Err("unterminated string".into());
            }
            let c = self.b[self.i];
            self.i += 1;
            match c {
                b'"' => break,
                b'\\' => {
                    if self.i >= self.b.len() {
                        return Err("bad escape".into());
                    }
                    let e = self.b[self.i];
                    self.i += 1;
                    match e {
                        b'"' => out.push(b'"'),
                        b'\\' => out.push(b'\\'),
                        b'/' => out.push(b'/'),
                        b'n' => out.push(b'\n'),
                        b'r' => out.push(b'\r'),
                        b't' => out.push(b'\t'),
                        b'b' => out.push(8),
                        b'f' => out.push(12),
                        b'u' => {
                            if self.i + 4 > self.b.len() {
                                return Err("bad \\u".into());
                            }
                            let h = std::str::from_utf8(&self.b[self.i..self.i + 4]).map_err(|e| e.to_string())?;
                            let cp = u32::from_str_radix(h, 16).map_err(|e| e.to_string())?;
                            self.i += 4;
                            let ch = char::from_u32(cp).ok_or("surrogate in \\u not supported")?;
                            let mut buf = [0u8; 4];
                            out.extend_from_slice(ch.encode_utf8(&mut buf).as_bytes());
                        }
                        _ => return Err("bad escape".into()),
                    }
                }
                c => out.push(c),
            }
        }
        String::from_utf8(out).map_err(|e| e.to_string())
    }
}

#[cfg(test)]
mod tests {
    use super::*;

    #[test]
    fn round_trip() {
        let v = J::obj()
            .with("a", J::Int(-3))
            .with("b", J::Arr(vec![J::Bool(true), J::Null, J::str("x\"y\n♠\t")]))
            .with("c", J::obj().with("h", J::hex64(u64::MAX)))
            .with("f", J::Float(2.5))
            .with("g", J::Float(3.0))
            .with("e", J::Arr(vec![]));
        for text in [v.pretty(), v.compact()] {
            let back = parse(&text).unwrap();
            assert_eq!(back, v, "{}", text);
        }
        assert_eq!(v.get("c").unwrap().get("h").unwrap().as_u64(), Some(u64::MAX));
    }

    #[test]
    fn rejects_garbage() {
        assert!(parse("{").is_err());
        assert!(parse("[1,]").is_err());
        assert!(parse("{} x").is_err());
    }
}
