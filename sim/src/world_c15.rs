//! C15 — card bit-sets behave as sets: union, subset, count, validity, ordered peel.
//!
//! World: a register file of live `BinaryCard` (u64) values manipulated only
//! through the crate's `BC64` trait, each shadowed by a `[bool; 64]`
//! membership model that uses plain loops and the documented deck order.

use crate::cardsref::{junk_str, tail_str, JUNK_CODES, alias_spelling, card_bit, card_name, card_word, spelling, spellings, separator, ASCII_SEPARATORS, CARD_MASK, JUNK, SEPARATORS, SEPARATOR_RUN_STYLES, TAILS};
use crate::json::J;
use crate::rng::{fold, Rng, FNV_OFFSET};
use crate::sim::{at, Obs, Outcome, Violation, World};
use crate::world_c19::{build as build_container, reg_accessors as container_accessors, reg_set as container_set, Reg, VIA_ARR};
use ckc_rs::cards::binary_card::{BinaryCard, BC64};
use ckc_rs::cards::five::Five;
use ckc_rs::cards::four::Four;
use ckc_rs::cards::seven::Seven;
use ckc_rs::cards::six::Six;
use ckc_rs::cards::three::Three;
use ckc_rs::cards::two::Two;
use ckc_rs::cards::{HandRanker, HandValidator};
use ckc_rs::PokerCard;

pub const NREGS: usize = 8;
pub const NHANDS: usize = 4;
pub const MAX_LEN: usize = 48;
pub const BLANK_SLOT: u8 = 52;
pub const DRAIN_CUTOFF: usize = 65;

#[derive(Clone, PartialEq, Debug)]
pub enum Tok {
    Card { idx: u8, spell: u8, tail: u8 },
    Junk(u8),
    /// a non-card look-alike of a card spelling (see cardsref::alias_spelling)
    Alias { idx: u8, spell: u8, mode: u8 },
}

#[derive(Clone, PartialEq, Debug)]
pub enum Src {
    Reg(u8),
    Raw(u64),
}

#[derive(Clone, PartialEq, Debug)]
pub enum Op {
    /// slots hold a deck index 0..51 or 52 for the blank card
    BuildHand { dst: u8, n: u8, slots: [u8; 7], via_setters: bool, order: u8 },
    /// lead / trail: 0 = nothing, k = separator k-1 before the first / after the last token
    BuildText { dst: u8, tokens: Vec<Tok>, seps: Vec<u8>, lead: u8, trail: u8 },
    BuildRaw { dst: u8, bits: u64 },
    BuildFold { dst: u8, cards: Vec<u8> },
    FoldIn { dst: u8, a: u8, b: Src },
    Has { r: u8, q: u64 },
    Count { r: u8 },
    Single { r: u8 },
    Valid { r: u8 },
    Peel { r: u8 },
    Drain { r: u8 },
    /// a live hand container (kept across steps) is created from slots …
    HandNew { h: u8, n: u8, slots: [u8; 7] },
    /// … receives a card or blank in one slot through its setter …
    HandSet { h: u8, k: u8, slot: u8 },
    /// … and is converted to a set at any point of its life
    FromHand { dst: u8, h: u8 },
    /// some other public function is called on a set or a live hand and its result ignored
    Env { r: u8, which: u8 },
}

const K_HAND: usize = 0;
const K_TEXT: usize = 1;
const K_RAW: usize = 2;
const K_BFOLD: usize = 3;
const K_FOLDIN: usize = 4;
const K_HAS: usize = 5;
const K_COUNT: usize = 6;
const K_SINGLE: usize = 7;
const K_VALID: usize = 8;
const K_PEEL: usize = 9;
const K_DRAIN: usize = 10;
const K_HNEW: usize = 11;
const K_HSET: usize = 12;
const K_FROMH: usize = 13;
const K_ENV: usize = 14;
const KINDS: [&str; 15] = ["BuildHand", "BuildText", "BuildRaw", "BuildFold", "FoldIn", "Has", "Count", "Single", "Valid", "Peel", "Drain", "HandNew", "HandSet", "FromHand", "Env"];
const FROM_NAMES: [&str; 8] = ["-", "-", "from_two", "from_three", "from_four", "from_five", "from_six", "from_seven"];

// ---- probes -----------------------------------------------------------------

const PROBE_LIST: &[&str] = &[
    "from_two",
    "from_three",
    "from_four",
    "from_five",
    "from_six",
    "from_seven",
    "hand_with_blank_slot",
    "hand_with_repeated_card",
    "hand_all_blank",
    "hand_all_distinct_cards",
    "hand_built_by_setters",
    "hand_reads_back_differently_from_what_it_was_given_or_holds_non_card_words",
    "container_call_panicked_operation_given_up",
    "environment_call_other_public_function",
    "environment_call_panicked_and_was_ignored",
    "hand_register_new",
    "hand_register_set",
    "hand_register_set_overwrites_card_also_held_elsewhere",
    "from_hand_register",
    "from_hand_register_with_setter_history",
    "text_build",
    "text_no_tokens",
    "text_with_junk_token",
    "text_junk_between_cards",
    "text_repeated_card_token",
    "text_more_than_7_tokens",
    "text_tab_or_newline_separator",
    "text_leading_or_trailing_space",
    "text_non_ascii_unicode_whitespace_or_vertical_tab",
    "text_gap_is_a_run_of_two_to_five_whitespace_characters_any_of_the_25",
    "text_outline_glyph",
    "text_zero_for_ten",
    "text_lowercase_spelling",
    "text_card_token_with_tail",
    "text_lookalike_alias_token",
    "raw_empty",
    "raw_full_deck",
    "raw_with_overflow_bits",
    "raw_only_overflow_bits",
    "raw_single_card",
    "build_fold",
    "fold_overlapping",
    "fold_disjoint",
    "fold_equal_sets",
    "fold_empty_operand",
    "fold_operand_with_overflow",
    "fold_register_into_itself",
    "has_single_member_true",
    "has_single_nonmember_false",
    "has_multi_subset_true",
    "has_partial_overlap_false",
    "has_empty_query",
    "has_strict_superset_false",
    "has_on_register_with_overflow",
    "has_query_with_bits_above_51",
    "has_false_only_because_of_a_bit_above_51",
    "count_pure_cards",
    "count_with_overflow_bits",
    "single_true",
    "single_false",
    "single_on_empty",
    "valid_true",
    "valid_false_empty",
    "valid_false_overflow",
    "valid_only_bit_52_set_above_cards",
    "valid_with_ace_of_spades_bit_51",
    "peel_nonempty",
    "peel_empty",
    "peel_only_overflow_bits",
    "peel_cards_plus_overflow",
    "peel_last_card",
    "drain_full_deck",
    "drain_8_or_more",
    "drain_with_overflow",
    "drain_empty",
    "swarm_mix_build_heavy",
    "swarm_mix_peel_heavy",
    "swarm_mix_fold_heavy",
    "swarm_mix_query_heavy",
    "swarm_mix_balanced",
    "swarm_overflow_allowed",
    "swarm_overflow_never",
    "swarm_history_len_1_3",
    "swarm_history_len_4_12",
    "swarm_history_len_13_48",
    "swarm_history_long_lived_200_plus_operations",
    "swarm_registers_1_2",
    "swarm_registers_3_5",
    "swarm_registers_6_8",
];

fn pi(name: &str) -> usize {
    PROBE_LIST.iter().position(|p| *p == name).unwrap_or_else(|| panic!("unknown probe {}", name))
}

/// Probe indexes resolved once.
struct P {
    from: usize,
    hand_blank: usize,
    hand_rep: usize,
    hand_all_blank: usize,
    hand_distinct: usize,
    hand_setters: usize,
    hand_readback_differs: usize,
    container_panicked: usize,
    env: usize,
    env_panicked: usize,
    hreg_new: usize,
    hreg_set: usize,
    hreg_set_dup: usize,
    hreg_from: usize,
    hreg_from_hist: usize,
    text: usize,
    text_none: usize,
    text_junk: usize,
    text_junk_mid: usize,
    text_rep: usize,
    text_gt7: usize,
    text_tabnl: usize,
    text_leadtrail: usize,
    text_unicode_ws: usize,
    text_ws_run: usize,
    text_outline: usize,
    text_zero: usize,
    text_lower: usize,
    text_tail: usize,
    text_alias: usize,
    raw_empty: usize,
    raw_full: usize,
    raw_over: usize,
    raw_only_over: usize,
    raw_single: usize,
    bfold: usize,
    fold_overlap: usize,
    fold_disjoint: usize,
    fold_equal: usize,
    fold_empty: usize,
    fold_over: usize,
    fold_self: usize,
    has_mem: usize,
    has_nonmem: usize,
    has_subset: usize,
    has_partial: usize,
    has_empty: usize,
    has_superset: usize,
    has_over_reg: usize,
    has_over_query: usize,
    has_over_query_only_reason: usize,
    count_pure: usize,
    count_over: usize,
    single_t: usize,
    single_f: usize,
    single_empty: usize,
    valid_t: usize,
    valid_f_empty: usize,
    valid_f_over: usize,
    valid_52: usize,
    valid_51: usize,
    peel_ne: usize,
    peel_empty: usize,
    peel_only_over: usize,
    peel_plus_over: usize,
    peel_last: usize,
    drain_full: usize,
    drain_8: usize,
    drain_over: usize,
    drain_empty: usize,
    mix: usize,
    over_allowed: usize,
    over_never: usize,
    len_s: usize,
    len_m: usize,
    len_l: usize,
    len_xl: usize,
    regs_a: usize,
    regs_b: usize,
    regs_c: usize,
}

fn probes() -> &'static P {
    use std::sync::OnceLock;
    static CELL: OnceLock<P> = OnceLock::new();
    CELL.get_or_init(|| P {
        from: pi("from_two"),
        hand_blank: pi("hand_with_blank_slot"),
        hand_rep: pi("hand_with_repeated_card"),
        hand_all_blank: pi("hand_all_blank"),
        hand_distinct: pi("hand_all_distinct_cards"),
        hand_setters: pi("hand_built_by_setters"),
        hand_readback_differs: pi("hand_reads_back_differently_from_what_it_was_given_or_holds_non_card_words"),
        container_panicked: pi("container_call_panicked_operation_given_up"),
        env: pi("environment_call_other_public_function"),
        env_panicked: pi("environment_call_panicked_and_was_ignored"),
        hreg_new: pi("hand_register_new"),
        hreg_set: pi("hand_register_set"),
        hreg_set_dup: pi("hand_register_set_overwrites_card_also_held_elsewhere"),
        hreg_from: pi("from_hand_register"),
        hreg_from_hist: pi("from_hand_register_with_setter_history"),
        text: pi("text_build"),
        text_none: pi("text_no_tokens"),
        text_junk: pi("text_with_junk_token"),
        text_junk_mid: pi("text_junk_between_cards"),
        text_rep: pi("text_repeated_card_token"),
        text_gt7: pi("text_more_than_7_tokens"),
        text_tabnl: pi("text_tab_or_newline_separator"),
        text_leadtrail: pi("text_leading_or_trailing_space"),
        text_unicode_ws: pi("text_non_ascii_unicode_whitespace_or_vertical_tab"),
        text_ws_run: pi("text_gap_is_a_run_of_two_to_five_whitespace_characters_any_of_the_25"),
        text_outline: pi("text_outline_glyph"),
        text_zero: pi("text_zero_for_ten"),
        text_lower: pi("text_lowercase_spelling"),
        text_tail: pi("text_card_token_with_tail"),
        text_alias: pi("text_lookalike_alias_token"),
        raw_empty: pi("raw_empty"),
        raw_full: pi("raw_full_deck"),
        raw_over: pi("raw_with_overflow_bits"),
        raw_only_over: pi("raw_only_overflow_bits"),
        raw_single: pi("raw_single_card"),
        bfold: pi("build_fold"),
        fold_overlap: pi("fold_overlapping"),
        fold_disjoint: pi("fold_disjoint"),
        fold_equal: pi("fold_equal_sets"),
        fold_empty: pi("fold_empty_operand"),
        fold_over: pi("fold_operand_with_overflow"),
        fold_self: pi("fold_register_into_itself"),
        has_mem: pi("has_single_member_true"),
        has_nonmem: pi("has_single_nonmember_false"),
        has_subset: pi("has_multi_subset_true"),
        has_partial: pi("has_partial_overlap_false"),
        has_empty: pi("has_empty_query"),
        has_superset: pi("has_strict_superset_false"),
        has_over_reg: pi("has_on_register_with_overflow"),
        has_over_query: pi("has_query_with_bits_above_51"),
        has_over_query_only_reason: pi("has_false_only_because_of_a_bit_above_51"),
        count_pure: pi("count_pure_cards"),
        count_over: pi("count_with_overflow_bits"),
        single_t: pi("single_true"),
        single_f: pi("single_false"),
        single_empty: pi("single_on_empty"),
        valid_t: pi("valid_true"),
        valid_f_empty: pi("valid_false_empty"),
        valid_f_over: pi("valid_false_overflow"),
        valid_52: pi("valid_only_bit_52_set_above_cards"),
        valid_51: pi("valid_with_ace_of_spades_bit_51"),
        peel_ne: pi("peel_nonempty"),
        peel_empty: pi("peel_empty"),
        peel_only_over: pi("peel_only_overflow_bits"),
        peel_plus_over: pi("peel_cards_plus_overflow"),
        peel_last: pi("peel_last_card"),
        drain_full: pi("drain_full_deck"),
        drain_8: pi("drain_8_or_more"),
        drain_over: pi("drain_with_overflow"),
        drain_empty: pi("drain_empty"),
        mix: pi("swarm_mix_build_heavy"),
        over_allowed: pi("swarm_overflow_allowed"),
        over_never: pi("swarm_overflow_never"),
        len_s: pi("swarm_history_len_1_3"),
        len_m: pi("swarm_history_len_4_12"),
        len_l: pi("swarm_history_len_13_48"),
        len_xl: pi("swarm_history_long_lived_200_plus_operations"),
        regs_a: pi("swarm_registers_1_2"),
        regs_b: pi("swarm_registers_3_5"),
        regs_c: pi("swarm_registers_6_8"),
    })
}

// cell = (op kind 15) x (cards-in-register bucket 7) x (has overflow 2) x (result class 4)
const CELL_BITS: usize = 15 * 7 * 2 * 4;
fn bucket(n: u32) -> usize {
    match n {
        0 => 0,
        1 => 1,
        2 => 2,
        3..=7 => 3,
        8..=25 => 4,
        26..=51 => 5,
        _ => 6,
    }
}
fn cell(kind: usize, cards: u32, over: bool, res: usize) -> usize {
    ((kind * 7 + bucket(cards)) * 2 + over as usize) * 4 + res.min(3)
}

// ---- the model: membership by bit position, plain loops ---------------------------

#[derive(Clone, Copy, PartialEq)]
pub struct Set {
    pub m: [bool; 64],
}

impl Set {
    pub const EMPTY: Set = Set { m: [false; 64] };

    pub fn from_bits(v: u64) -> Set {
        let mut m = [false; 64];
        for (p, slot) in m.iter_mut().enumerate() {
            *slot = (v >> p) & 1 == 1;
        }
        Set { m }
    }
    pub fn to_bits(&self) -> u64 {
        let mut v = 0u64;
        for p in 0..64 {
            if self.m[p] {
                v |= 1u64 << p;
            }
        }
        v
    }
    /// number of real cards (bit positions 0..51)
    pub fn cards(&self) -> u32 {
        let mut c = 0;
        for p in 0..52 {
            if self.m[p] {
                c += 1;
            }
        }
        c
    }
    pub fn all_bits(&self) -> u32 {
        let mut c = 0;
        for p in 0..64 {
            if self.m[p] {
                c += 1;
            }
        }
        c
    }
    pub fn has_overflow(&self) -> bool {
        (52..64).any(|p| self.m[p])
    }
    pub fn insert_card(&mut self, deck_index: usize) {
        self.m[51 - deck_index] = true;
    }
    /// the member that comes first in deck order: ace of spades (index 0, bit 51) downwards
    pub fn first_in_deck_order(&self) -> Option<usize> {
        (0..52).find(|&i| self.m[51 - i])
    }
    pub fn is_subset_cards(&self, q: &Set) -> bool {
        // q ⊆ self, over all 64 positions
        for p in 0..64 {
            if q.m[p] && !self.m[p] {
                return false;
            }
        }
        true
    }
}

fn set_str(v: u64) -> String {
    let mut parts: Vec<String> = Vec::new();
    for i in 0..52 {
        if v & card_bit(i) != 0 {
            parts.push(card_name(i));
        }
    }
    let over = v >> 52;
    let mut s = format!("{{{}}}", parts.join(" "));
    if over != 0 {
        s.push_str(&format!("+overflow bits {:#05x}<<52", over));
    }
    s
}

// ---- real-crate construction ---------------------------------------------------

fn slot_word(s: u8) -> u32 {
    if s < 52 {
        card_word(s as usize)
    } else {
        0
    }
}

fn order_of(n: usize, order: u8) -> Vec<usize> {
    let rot = (order & 0x7F) as usize % n;
    let mut v: Vec<usize> = (0..n).map(|k| (k + rot) % n).collect();
    if order & 0x80 != 0 {
        v.reverse();
    }
    v
}

/// Building and writing containers is C19's subject. If one of those calls panics, the C15 world
/// gives the operation up instead of reporting it.
fn guarded<T>(f: impl FnOnce() -> T) -> Option<T> {
    crate::sim::swallow_crate_panic(f)
}

/// The container a set is built from: from an array, or from a default container that received
/// its words through setter calls in some order.
fn build_hand_container(n: usize, slots: &[u8; 7], via_setters: bool, order: u8) -> Reg {
    let mut w = [0u32; 7];
    for k in 0..n {
        w[k] = slot_word(slots[k]);
    }
    if !via_setters {
        return build_container(n, VIA_ARR, &w).0;
    }
    let mut reg = match n {
        2 => Reg::Two(Two::default()),
        3 => Reg::Three(Three::default()),
        4 => Reg::Four(Four::default()),
        5 => Reg::Five(Five::default()),
        6 => Reg::Six(Six::default()),
        _ => Reg::Seven(Seven::default()),
    };
    for k in order_of(n, order) {
        container_set(&mut reg, k, w[k]);
    }
    reg
}

fn set_from_container(reg: &Reg) -> BinaryCard {
    match *reg {
        Reg::Two(x) => BinaryCard::from_two(x),
        Reg::Three(x) => BinaryCard::from_three(x),
        Reg::Four(x) => BinaryCard::from_four(x),
        Reg::Five(x) => BinaryCard::from_five(x),
        Reg::Six(x) => BinaryCard::from_six(x),
        Reg::Seven(x) => BinaryCard::from_seven(x),
    }
}

/// What the container says it holds, read through its positional accessors (the same ones the
/// conversion uses): a deck index or blank per slot, or None when some slot holds a word that is
/// neither. Whether a container stores what it was given is C19's subject, not C15's: the set is
/// judged against what the hand holds at the moment of conversion.
fn observed_slots(reg: &Reg) -> Option<([u8; 7], usize)> {
    let (acc, n) = container_accessors(reg);
    let mut out = [BLANK_SLOT; 7];
    for k in 0..n.min(7) {
        if acc[k] == 0 {
            out[k] = BLANK_SLOT;
        } else {
            match (0..52).find(|i| card_word(*i) == acc[k]) {
                Some(i) => out[k] = i as u8,
                None => return None,
            }
        }
    }
    Some((out, n.min(7)))
}

pub fn text_of(tokens: &[Tok], seps: &[u8], lead: u8, trail: u8) -> String {
    let mut s = String::new();
    if lead > 0 {
        s.push_str(&separator(lead - 1, 0));
    }
    for (i, t) in tokens.iter().enumerate() {
        if i > 0 {
            s.push_str(&separator(seps.get(i - 1).copied().unwrap_or(0), i - 1));
        }
        match t {
            Tok::Card { idx, spell, tail } => {
                s.push_str(&spelling(*idx as usize % 52, *spell as usize));
                s.push_str(&tail_str(*tail));
            }
            Tok::Junk(j) => s.push_str(&junk_str(*j)),
            Tok::Alias { idx, spell, mode } => s.push_str(&alias_spelling(*idx as usize % 52, *spell as usize, *mode as usize)),
        }
    }
    if trail > 0 {
        s.push_str(&separator(trail - 1, tokens.len()));
    }
    s
}

// ---- execution --------------------------------------------------------------------

pub struct C15;

struct Ctx {
    h: u64,
    nontrivial: bool,
}

impl C15 {
    fn fail(ctx: &Ctx, step: usize, inv: &str, kind: usize, sub: &str, detail: String, obs: &mut Obs) -> Outcome {
        let class = format!("{}/{}/{}", inv, KINDS[kind], sub);
        let mut d = fold(ctx.h, 0xBAD);
        for b in class.bytes() {
            d = fold(d, b as u64);
        }
        obs.log(format!("#{} VIOLATION {}: {}", step, class, detail));
        Outcome { digest: d, steps: step as u32 + 1, violation: Some(Violation { step, class, detail }), nontrivial: ctx.nontrivial }
    }

    fn exec(ops: &[Op], obs: &mut Obs) -> Outcome {
        let p = probes();
        let mut regs: [BinaryCard; NREGS] = [0; NREGS];
        let mut model: [Set; NREGS] = [Set::EMPTY; NREGS];
        let mut ctx = Ctx { h: FNV_OFFSET, nontrivial: false };
        let mut hands: [Option<Reg>; NHANDS] = [None; NHANDS];
        let mut hand_model: [(u8, [u8; 7], u32); NHANDS] = [(0, [BLANK_SLOT; 7], 0); NHANDS]; // (size, slots, setter calls)
        let mut prev_kind: Option<usize> = None;
        let mut kinds_used = 0u64;

        for (step, op) in ops.iter().enumerate() {
            let kind = Self::op_kind(op);
            kinds_used |= 1 << kind;
            if let Some(pk) = prev_kind {
                obs.bigram(pk, kind);
            }
            prev_kind = Some(kind);
            ctx.h = fold(ctx.h, 0x2000 + kind as u64);
            let mut touched: Option<usize> = None;
            let mut sub: &'static str = "-";

            match op {
                Op::BuildHand { dst, n, slots, via_setters, order } => {
                    let (d, n) = (*dst as usize % NREGS, (*n as usize).clamp(2, 7));
                    sub = FROM_NAMES[n];
                    at(step, kind, sub);
                    let hand = match guarded(|| build_hand_container(n, slots, *via_setters, *order)) {
                        Some(h) => h,
                        None => {
                            obs.hit(p.container_panicked);
                            continue;
                        }
                    };
                    at(step, kind, sub);
                    let v = set_from_container(&hand);
                    // judged against what the hand reports through its accessors; if that is not
                    // what it was given (C19's business) or not card-or-blank words, follow the hand
                    let seen = observed_slots(&hand);
                    let mut intended = [BLANK_SLOT; 7];
                    for k in 0..n {
                        intended[k] = if slots[k] < 52 { slots[k] } else { BLANK_SLOT };
                    }
                    let judged: Option<[u8; 7]> = match seen {
                        Some((o, on)) if on == n => {
                            if o != intended {
                                obs.hit(p.hand_readback_differs);
                            }
                            Some(o)
                        }
                        _ => {
                            obs.hit(p.hand_readback_differs);
                            None
                        }
                    };
                    let mut m = Set::EMPTY;
                    let mut blanks = 0;
                    let mut reps = 0;
                    match judged {
                        Some(o) => {
                            for k in 0..n {
                                if o[k] < 52 {
                                    if m.m[51 - o[k] as usize] {
                                        reps += 1;
                                    }
                                    m.insert_card(o[k] as usize);
                                } else {
                                    blanks += 1;
                                }
                            }
                        }
                        None => m = Set::from_bits(v), // not judged: the hand holds words outside the quantifier
                    }
                    obs.hit(p.from + n - 2);
                    if blanks > 0 {
                        obs.hit(p.hand_blank);
                    }
                    if reps > 0 {
                        obs.hit(p.hand_rep);
                    }
                    if blanks == n {
                        obs.hit(p.hand_all_blank);
                    }
                    if blanks == 0 && reps == 0 {
                        obs.hit(p.hand_distinct);
                    }
                    if *via_setters {
                        obs.hit(p.hand_setters);
                    }
                    obs.cell(cell(kind, m.cards(), false, n - 2));
                    regs[d] = v;
                    model[d] = m;
                    ctx.h = fold(ctx.h, (d as u64) << 8 | n as u64);
                    for k in 0..n {
                        ctx.h = fold(ctx.h, slots[k] as u64);
                    }
                    if obs.tracing() {
                        let names: Vec<String> = slots[..n].iter().map(|s| if *s < 52 { card_name(*s as usize) } else { "__".to_string() }).collect();
                        obs.log(format!("#{} s{} := BinaryCard::{}([{}]){} -> {:#018x} {}", step, d, sub, names.join(" "), if *via_setters { " (container filled by setters)" } else { "" }, v, set_str(v)));
                    }
                    touched = Some(d);
                }
                Op::BuildText { dst, tokens, seps, lead, trail } => {
                    let d = *dst as usize % NREGS;
                    sub = "from_index";
                    at(step, kind, sub);
                    let text = text_of(tokens, seps, *lead, *trail);
                    let v = BinaryCard::from_index(&text);
                    let mut m = Set::EMPTY;
                    let mut junk = false;
                    let mut junk_mid = false;
                    let mut rep = false;
                    let mut seen_card = false;
                    let mut pending_junk = false;
                    for t in tokens.iter() {
                        match t {
                            Tok::Card { idx, spell, tail } => {
                                let i = *idx as usize % 52;
                                if *tail != 0 {
                                    obs.hit(p.text_tail);
                                }
                                if m.m[51 - i] {
                                    rep = true;
                                }
                                m.insert_card(i);
                                if pending_junk && seen_card {
                                    junk_mid = true;
                                }
                                seen_card = true;
                                let sp = *spell as usize % spellings(i);
                                if sp % 4 == 1 {
                                    obs.hit(p.text_outline);
                                }
                                if sp / 4 == 2 {
                                    obs.hit(p.text_zero);
                                }
                                if sp / 4 == 1 || sp % 4 == 3 {
                                    obs.hit(p.text_lower);
                                }
                            }
                            Tok::Junk(_) => {
                                junk = true;
                                pending_junk = true;
                            }
                            Tok::Alias { .. } => {
                                junk = true;
                                pending_junk = true;
                                obs.hit(p.text_alias);
                            }
                        }
                    }
                    obs.hit(p.text);
                    if tokens.is_empty() {
                        obs.hit(p.text_none);
                    }
                    if junk {
                        obs.hit(p.text_junk);
                    }
                    if junk_mid {
                        obs.hit(p.text_junk_mid);
                    }
                    if rep {
                        obs.hit(p.text_rep);
                    }
                    if tokens.len() > 7 {
                        obs.hit(p.text_gt7);
                    }
                    let used = || seps.iter().take(tokens.len().saturating_sub(1)).map(|s| *s as usize);
                    if used().any(|s| (2..ASCII_SEPARATORS).contains(&s)) {
                        obs.hit(p.text_tabnl);
                    }
                    if used().any(|s| s >= ASCII_SEPARATORS) || (*lead as usize > ASCII_SEPARATORS) || (*trail as usize > ASCII_SEPARATORS) {
                        obs.hit(p.text_unicode_ws);
                    }
                    if *lead > 0 || *trail > 0 {
                        obs.hit(p.text_leadtrail);
                    }
                    if used().any(|s| s >= SEPARATORS.len()) || (*lead as usize > SEPARATORS.len()) || (*trail as usize > SEPARATORS.len()) {
                        obs.hit(p.text_ws_run);
                    }
                    obs.cell(cell(kind, m.cards(), false, (junk as usize) * 2 + rep as usize));
                    regs[d] = v;
                    model[d] = m;
                    ctx.h = fold(ctx.h, d as u64);
                    for b in text.bytes() {
                        ctx.h = fold(ctx.h, b as u64);
                    }
                    if obs.tracing() {
                        obs.log(format!("#{} s{} := BinaryCard::from_index({:?}) -> {:#018x} {}", step, d, text, v, set_str(v)));
                    }
                    touched = Some(d);
                }
                Op::BuildRaw { dst, bits } => {
                    let d = *dst as usize % NREGS;
                    sub = "raw";
                    regs[d] = *bits;
                    model[d] = Set::from_bits(*bits);
                    let m = &model[d];
                    if *bits == 0 {
                        obs.hit(p.raw_empty);
                    }
                    if m.cards() == 52 {
                        obs.hit(p.raw_full);
                    }
                    if m.has_overflow() {
                        obs.hit(p.raw_over);
                        if m.cards() == 0 {
                            obs.hit(p.raw_only_over);
                        }
                    }
                    if m.all_bits() == 1 && !m.has_overflow() {
                        obs.hit(p.raw_single);
                    }
                    obs.cell(cell(kind, m.cards(), m.has_overflow(), 0));
                    ctx.h = fold(ctx.h, d as u64);
                    ctx.h = fold(ctx.h, *bits);
                    if obs.tracing() {
                        obs.log(format!("#{} s{} := literal {:#018x} {}", step, d, bits, set_str(*bits)));
                    }
                    touched = Some(d);
                }
                Op::BuildFold { dst, cards } => {
                    let d = *dst as usize % NREGS;
                    sub = "fold";
                    at(step, kind, sub);
                    let mut v: BinaryCard = 0; // the blank set
                    let mut m = Set::EMPTY;
                    for c in cards.iter() {
                        let i = *c as usize % 52;
                        v = v.fold_in(card_bit(i));
                        m.insert_card(i);
                    }
                    obs.hit(p.bfold);
                    obs.cell(cell(kind, m.cards(), false, 0));
                    regs[d] = v;
                    model[d] = m;
                    ctx.h = fold(ctx.h, d as u64);
                    for c in cards.iter() {
                        ctx.h = fold(ctx.h, *c as u64);
                    }
                    if obs.tracing() {
                        let names: Vec<String> = cards.iter().map(|c| card_name(*c as usize % 52)).collect();
                        obs.log(format!("#{} s{} := BLANK.fold_in each of [{}] -> {:#018x} {}", step, d, names.join(" "), v, set_str(v)));
                    }
                    touched = Some(d);
                }
                Op::FoldIn { dst, a, b } => {
                    let (d, a) = (*dst as usize % NREGS, *a as usize % NREGS);
                    sub = "union";
                    at(step, kind, sub);
                    let (bv, bm, b_is_self) = match b {
                        Src::Reg(r) => {
                            let r = *r as usize % NREGS;
                            (regs[r], model[r], r == a)
                        }
                        Src::Raw(x) => (*x, Set::from_bits(*x), false),
                    };
                    let am = model[a];
                    let av = regs[a];
                    let v = av.fold_in(bv);
                    // model: union, position by position, over all 64 positions — a set may
                    // carry bits above the card range (that is what makes it invalid) and
                    // folding in must neither lose nor invent them
                    let mut m = Set::EMPTY;
                    for pbit in 0..64 {
                        m.m[pbit] = am.m[pbit] || bm.m[pbit];
                    }
                    let (ac, bc) = (am.to_bits() & CARD_MASK, bm.to_bits() & CARD_MASK);
                    if b_is_self {
                        obs.hit(p.fold_self);
                    }
                    if ac == bc && ac != 0 {
                        obs.hit(p.fold_equal);
                    } else if ac & bc != 0 {
                        obs.hit(p.fold_overlap);
                    } else if ac != 0 && bc != 0 {
                        obs.hit(p.fold_disjoint);
                    }
                    if ac == 0 || bc == 0 {
                        obs.hit(p.fold_empty);
                    }
                    if bm.has_overflow() || am.has_overflow() {
                        obs.hit(p.fold_over);
                    }
                    if ac != 0 {
                        ctx.nontrivial = true;
                    }
                    obs.cell(cell(kind, am.cards(), am.has_overflow(), (ac & bc != 0) as usize * 2 + (bc != 0) as usize));
                    regs[d] = v;
                    model[d] = m;
                    ctx.h = fold(ctx.h, (d as u64) << 8 | a as u64);
                    ctx.h = fold(ctx.h, bv);
                    if obs.tracing() {
                        obs.log(format!("#{} s{} := s{}.fold_in({:#018x} {}) -> {:#018x} {}", step, d, a, bv, set_str(bv), v, set_str(v)));
                    }
                    touched = Some(d);
                }
                Op::Has { r, q } => {
                    let r = *r as usize % NREGS;
                    let q = *q;
                    at(step, kind, sub);
                    let got = regs[r].has(q);
                    let qm = Set::from_bits(q);
                    let want = model[r].is_subset_cards(&qm);
                    let rc = model[r].to_bits() & CARD_MASK;
                    let qn = qm.cards();
                    if q == 0 {
                        obs.hit(p.has_empty);
                    } else if qn == 1 && want {
                        obs.hit(p.has_mem);
                    } else if qn == 1 {
                        obs.hit(p.has_nonmem);
                    } else if want {
                        obs.hit(p.has_subset);
                    } else if q & rc != 0 {
                        obs.hit(p.has_partial);
                        if q & rc == rc {
                            obs.hit(p.has_superset);
                        }
                    }
                    if model[r].has_overflow() {
                        obs.hit(p.has_over_reg);
                    }
                    if q & !CARD_MASK != 0 {
                        obs.hit(p.has_over_query);
                        if q & CARD_MASK & !rc == 0 && !want {
                            obs.hit(p.has_over_query_only_reason);
                        }
                    }
                    obs.cell(cell(kind, model[r].cards(), model[r].has_overflow(), want as usize * 2 + (q & rc != 0) as usize));
                    ctx.h = fold(ctx.h, r as u64);
                    ctx.h = fold(ctx.h, q);
                    ctx.h = fold(ctx.h, got as u64);
                    if obs.tracing() {
                        obs.log(format!("#{} s{}.has({}) -> {} (model {})", step, r, set_str(q), got, want));
                    }
                    if got != want {
                        return Self::fail(&ctx, step, "S2-result", kind, if want { "subset" } else { "not-subset" }, format!("{:#018x} {}.has({:#018x} {}) returned {}, subset test says {}", regs[r], set_str(regs[r]), q, set_str(q), got, want), obs);
                    }
                }
                Op::Count { r } => {
                    let r = *r as usize % NREGS;
                    at(step, kind, sub);
                    let got = regs[r].number_of_cards();
                    let m = &model[r];
                    let ok = if m.has_overflow() {
                        obs.hit(p.count_over);
                        got == m.cards() || got == m.all_bits()
                    } else {
                        obs.hit(p.count_pure);
                        got == m.cards()
                    };
                    obs.cell(cell(kind, m.cards(), m.has_overflow(), 0));
                    ctx.h = fold(ctx.h, r as u64);
                    ctx.h = fold(ctx.h, got as u64);
                    if obs.tracing() {
                        obs.log(format!("#{} s{}.number_of_cards() -> {} (model {} cards)", step, r, got, m.cards()));
                    }
                    if !ok {
                        return Self::fail(&ctx, step, "S2-result", kind, if m.has_overflow() { "overflow" } else { "cards" }, format!("{:#018x} {}.number_of_cards() returned {}, the set has {} members", regs[r], set_str(regs[r]), got, m.cards()), obs);
                    }
                }
                Op::Single { r } => {
                    let r = *r as usize % NREGS;
                    at(step, kind, sub);
                    let got = regs[r].is_single_card();
                    let m = &model[r];
                    let ok = if m.has_overflow() { got == (m.cards() == 1) || got == (m.all_bits() == 1) } else { got == (m.cards() == 1) };
                    if got {
                        obs.hit(p.single_t);
                    } else {
                        obs.hit(p.single_f);
                    }
                    if m.all_bits() == 0 {
                        obs.hit(p.single_empty);
                    }
                    obs.cell(cell(kind, m.cards(), m.has_overflow(), got as usize));
                    ctx.h = fold(ctx.h, r as u64);
                    ctx.h = fold(ctx.h, got as u64);
                    if obs.tracing() {
                        obs.log(format!("#{} s{}.is_single_card() -> {}", step, r, got));
                    }
                    if !ok {
                        return Self::fail(&ctx, step, "S2-result", kind, if m.has_overflow() { "overflow" } else { "cards" }, format!("{:#018x} {}.is_single_card() returned {}, the set has {} members", regs[r], set_str(regs[r]), got, m.cards()), obs);
                    }
                }
                Op::Valid { r } => {
                    let r = *r as usize % NREGS;
                    at(step, kind, sub);
                    let got = regs[r].is_valid();
                    let m = &model[r];
                    // judged on the actual register value (which S1 ties to the model)
                    let want = m.all_bits() > 0 && !m.has_overflow();
                    if want {
                        obs.hit(p.valid_t);
                        if m.m[51] {
                            obs.hit(p.valid_51);
                        }
                    } else if m.all_bits() == 0 {
                        obs.hit(p.valid_f_empty);
                    } else {
                        obs.hit(p.valid_f_over);
                        if m.m[52] && !(53..64).any(|x| m.m[x]) {
                            obs.hit(p.valid_52);
                        }
                    }
                    obs.cell(cell(kind, m.cards(), m.has_overflow(), got as usize));
                    ctx.h = fold(ctx.h, r as u64);
                    ctx.h = fold(ctx.h, got as u64);
                    if obs.tracing() {
                        obs.log(format!("#{} s{}.is_valid() -> {} (model {})", step, r, got, want));
                    }
                    if got != want {
                        return Self::fail(&ctx, step, "S2-result", kind, if m.has_overflow() { "overflow" } else if m.all_bits() == 0 { "empty" } else { "cards" }, format!("{:#018x} {}.is_valid() returned {}, expected {} (non-empty and nothing above bit 51)", regs[r], set_str(regs[r]), got, want), obs);
                    }
                }
                Op::Peel { r } => {
                    let r = *r as usize % NREGS;
                    sub = "peel";
                    at(step, kind, sub);
                    let before = regs[r];
                    let bm = model[r];
                    if bm.cards() > 0 {
                        ctx.nontrivial = true;
                        obs.hit(p.peel_ne);
                        if bm.has_overflow() {
                            obs.hit(p.peel_plus_over);
                        }
                        if bm.cards() == 1 {
                            obs.hit(p.peel_last);
                        }
                    } else if bm.has_overflow() {
                        obs.hit(p.peel_only_over);
                    } else {
                        obs.hit(p.peel_empty);
                    }
                    obs.cell(cell(kind, bm.cards(), bm.has_overflow(), (bm.cards() > 0) as usize));
                    let got = regs[r].peel();
                    ctx.h = fold(ctx.h, r as u64);
                    ctx.h = fold(ctx.h, got);
                    if obs.tracing() {
                        obs.log(format!("#{} s{}.peel() -> {:#018x} {}; register now {:#018x} {}", step, r, got, set_str(got), regs[r], set_str(regs[r])));
                    }
                    if let Some(out) = Self::judge_peel(&ctx, step, kind, before, &bm, got, regs[r], &mut model[r], obs) {
                        return out;
                    }
                    touched = Some(r);
                }
                Op::Drain { r } => {
                    let r = *r as usize % NREGS;
                    sub = "drain";
                    at(step, kind, sub);
                    let bm0 = model[r];
                    let expect = bm0.cards() as usize;
                    if expect == 52 {
                        obs.hit(p.drain_full);
                    }
                    if expect >= 8 {
                        obs.hit(p.drain_8);
                    }
                    if bm0.has_overflow() {
                        obs.hit(p.drain_over);
                    }
                    if expect == 0 {
                        obs.hit(p.drain_empty);
                    } else {
                        ctx.nontrivial = true;
                    }
                    obs.cell(cell(kind, bm0.cards(), bm0.has_overflow(), 0));
                    ctx.h = fold(ctx.h, r as u64);
                    let mut listing: Vec<u64> = Vec::new();
                    let mut peels = 0usize;
                    loop {
                        let before = regs[r];
                        let bm = model[r];
                        let got = regs[r].peel();
                        peels += 1;
                        ctx.h = fold(ctx.h, got);
                        if let Some(out) = Self::judge_peel(&ctx, step, kind, before, &bm, got, regs[r], &mut model[r], obs) {
                            if obs.tracing() {
                                obs.log(format!("     drain listing so far: {}", listing.iter().map(|b| set_str(*b)).collect::<Vec<_>>().join(" ")));
                            }
                            return out;
                        }
                        if got == 0 {
                            break;
                        }
                        listing.push(got);
                        if peels >= DRAIN_CUTOFF {
                            return Self::fail(&ctx, step, "S4-drain", kind, "drain", format!("drain did not terminate after {} peels", peels), obs);
                        }
                    }
                    if listing.len() != expect {
                        return Self::fail(&ctx, step, "S4-drain", kind, "drain", format!("drain listed {} cards, the set had {}", listing.len(), expect), obs);
                    }
                    // once exhausted: blank again, and nothing changes
                    let before = regs[r];
                    let again = regs[r].peel();
                    ctx.h = fold(ctx.h, again);
                    if again != 0 || regs[r] != before {
                        return Self::fail(&ctx, step, "S4-drain", kind, "drain", format!("peel on an exhausted set returned {:#018x} and changed {:#018x} to {:#018x}", again, before, regs[r]), obs);
                    }
                    if obs.tracing() {
                        obs.log(format!("#{} drain s{}: {} peels listed [{}], then blank twice; register now {:#018x}", step, r, listing.len(), listing.iter().map(|b| set_str(*b)).collect::<Vec<_>>().join(" "), regs[r]));
                    }
                    touched = Some(r);
                }
                Op::HandNew { h, n, slots } => {
                    let (hh, n) = (*h as usize % NHANDS, (*n as usize).clamp(2, 7));
                    sub = FROM_NAMES[n];
                    at(step, kind, sub);
                    let mut w = [0u32; 7];
                    for k in 0..n {
                        w[k] = slot_word(slots[k]);
                    }
                    hands[hh] = guarded(|| build_container(n, VIA_ARR, &w).0);
                    if hands[hh].is_none() {
                        hand_model[hh] = (0, [BLANK_SLOT; 7], 0);
                        obs.hit(p.container_panicked);
                        continue;
                    }
                    let mut sl = [BLANK_SLOT; 7];
                    sl[..n].copy_from_slice(&slots[..n]);
                    hand_model[hh] = (n as u8, sl, 0);
                    obs.hit(p.hreg_new);
                    obs.cell(cell(kind, 0, false, n - 2));
                    ctx.h = fold(ctx.h, (hh as u64) << 8 | n as u64);
                    for k in 0..n {
                        ctx.h = fold(ctx.h, slots[k] as u64);
                    }
                    if obs.tracing() {
                        let names: Vec<String> = sl[..n].iter().map(|s| if *s < 52 { card_name(*s as usize) } else { "__".to_string() }).collect();
                        obs.log(format!("#{} hand{} := {} [{}]", step, hh, &FROM_NAMES[n][5..], names.join(" ")));
                    }
                }
                Op::HandSet { h, k, slot } => {
                    let (hh, k) = (*h as usize % NHANDS, *k as usize);
                    let n = hand_model[hh].0 as usize;
                    if hands[hh].is_none() || k >= n {
                        if obs.tracing() {
                            obs.log(format!("#{} hand{} set slot {}: not applicable, no-op", step, hh, k));
                        }
                    } else {
                        sub = FROM_NAMES[n];
                        at(step, kind, sub);
                        let old = hand_model[hh].1[k];
                        if old < 52 && (0..n).any(|j| j != k && hand_model[hh].1[j] == old) {
                            obs.hit(p.hreg_set_dup);
                        }
                        let mut tmp = hands[hh].unwrap();
                        if guarded(|| container_set(&mut tmp, k, slot_word(*slot))).is_none() {
                            hands[hh] = None;
                            hand_model[hh] = (0, [BLANK_SLOT; 7], 0);
                            obs.hit(p.container_panicked);
                            continue;
                        }
                        hands[hh] = Some(tmp);
                        hand_model[hh].1[k] = if *slot < 52 { *slot } else { BLANK_SLOT };
                        hand_model[hh].2 += 1;
                        obs.hit(p.hreg_set);
                        obs.cell(cell(kind, 0, false, (k > 3) as usize * 2 + (*slot < 52) as usize));
                        ctx.h = fold(ctx.h, (hh as u64) << 16 | (k as u64) << 8 | *slot as u64);
                        if obs.tracing() {
                            obs.log(format!("#{} hand{}.set slot {} := {}", step, hh, k, if *slot < 52 { card_name(*slot as usize) } else { "__".to_string() }));
                        }
                    }
                }
                Op::FromHand { dst, h } => {
                    let (d, hh) = (*dst as usize % NREGS, *h as usize % NHANDS);
                    match hands[hh] {
                        None => {
                            if obs.tracing() {
                                obs.log(format!("#{} from hand{}: not applicable, no-op", step, hh));
                            }
                        }
                        Some(reg) => {
                            let n = hand_model[hh].0 as usize;
                            sub = FROM_NAMES[n];
                            at(step, kind, sub);
                            let v = set_from_container(&reg);
                            let mut m = Set::EMPTY;
                            match observed_slots(&reg) {
                                Some((o, on)) if on == n => {
                                    if o != hand_model[hh].1 {
                                        obs.hit(p.hand_readback_differs);
                                    }
                                    for k in 0..n {
                                        if o[k] < 52 {
                                            m.insert_card(o[k] as usize);
                                        }
                                    }
                                }
                                _ => {
                                    obs.hit(p.hand_readback_differs);
                                    m = Set::from_bits(v);
                                }
                            }
                            obs.hit(p.hreg_from);
                            obs.hit(p.from + n - 2);
                            if hand_model[hh].2 > 0 {
                                obs.hit(p.hreg_from_hist);
                            }
                            obs.cell(cell(kind, m.cards(), false, n - 2));
                            regs[d] = v;
                            model[d] = m;
                            ctx.h = fold(ctx.h, (d as u64) << 8 | hh as u64);
                            if obs.tracing() {
                                obs.log(format!("#{} s{} := BinaryCard::{}(hand{}) -> {:#018x} {}", step, d, sub, hh, v, set_str(v)));
                            }
                            touched = Some(d);
                        }
                    }
                }
                Op::Env { r, which } => {
                    let (rr, hh) = (*r as usize % NREGS, *r as usize % NHANDS);
                    at(step, kind, sub);
                    obs.hit(p.env);
                    obs.cell(cell(kind, model[rr].cards(), model[rr].has_overflow(), *which as usize % 4));
                    let set = regs[rr];
                    let hand = hands[hh];
                    let w = *which as usize;
                    // results and panics are other properties' subjects and stay out of the digest; C15
                    // only says that afterwards every set still equals its model
                    let done = crate::sim::swallow_crate_panic(|| {
                        use std::hint::black_box as bb;
                        match w % 8 {
                            0 => { bb(Two::try_from(set).is_ok()); }
                            1 => { bb(<u32 as PokerCard>::from_binary_card(set)); }
                            2 => { bb(BinaryCard::from_ckc(card_word(w % 52))); }
                            3 => { bb(<u32 as PokerCard>::from_index("Q♦")); }
                            _ => {
                                if let Some(h) = hand {
                                    match h {
                                        Reg::Five(x) => { if w % 2 == 0 { bb(x.hand_rank_value()); } else { bb(x.sort()); } }
                                        Reg::Six(x) => { if w % 2 == 0 { bb(x.hand_rank_value()); } else { bb(HandValidator::is_valid(&x)); } }
                                        Reg::Seven(x) => { if w % 2 == 0 { bb(x.hand_rank_value_and_hand()); } else { bb(x.sort()); } }
                                        Reg::Two(x) => { bb(x.chen_formula()); }
                                        Reg::Three(x) => { bb(x.sort()); }
                                        Reg::Four(x) => { bb(x.are_unique()); }
                                    }
                                }
                            }
                        }
                    });
                    if done.is_none() {
                        obs.hit(p.env_panicked);
                    }
                    ctx.h = fold(ctx.h, (*r as u64) << 8 | *which as u64);
                    if obs.tracing() {
                        obs.log(format!("#{} environment call #{} on s{} / hand{} (result ignored)", step, which, rr, hh));
                    }
                }
            }

            // S1: every register's card bits equal its model; overflow part tracked exactly
            for r in 0..NREGS {
                obs.inv_checks += 1;
                let want = model[r].to_bits();
                if regs[r] != want {
                    let frame = touched != Some(r);
                    let inv = if frame { "frame" } else { "S1-members" };
                    let missing = want & !regs[r] & CARD_MASK;
                    let extra = regs[r] & !want & CARD_MASK;
                    return Self::fail(&ctx, step, inv, kind, sub, format!("after step {} ({}), set {} holds {:#018x} {} but the model has {:#018x} {}; missing {} extra {}", step, KINDS[kind], r, regs[r], set_str(regs[r]), want, set_str(want), set_str(missing), set_str(extra)), obs);
                }
                ctx.h = fold(ctx.h, regs[r]);
            }
            if obs.collect_values {
                if let Some(t) = touched {
                    obs.values.push(regs[t]);
                }
            }
        }
        let mut shape = 0u64;
        for r in 0..NREGS {
            shape = shape * 8 + bucket(model[r].cards()) as u64;
        }
        obs.shapes.push(shape << 12 | kinds_used);
        Outcome { digest: ctx.h, steps: ops.len() as u32, violation: None, nontrivial: ctx.nontrivial }
    }

    /// One peel: returns the highest remaining card in deck order and removes exactly it;
    /// on a set without cards returns blank and changes nothing.
    #[allow(clippy::too_many_arguments)]
    fn judge_peel(ctx: &Ctx, step: usize, kind: usize, before: u64, bm: &Set, got: u64, after: u64, model: &mut Set, obs: &mut Obs) -> Option<Outcome> {
        match bm.first_in_deck_order() {
            None => {
                if got != 0 || after != before {
                    return Some(Self::fail(ctx, step, "S3-peel", kind, "no-cards", format!("peel on {:#018x} (no card bits) returned {:#018x} and left {:#018x}; expected blank and no change", before, got, after), obs));
                }
                None
            }
            Some(i) => {
                let want = card_bit(i);
                if got != want {
                    return Some(Self::fail(ctx, step, "S3-peel", kind, "order", format!("peel on {:#018x} {} returned {:#018x} {}, the highest card in deck order is {} ({:#018x})", before, set_str(before), got, set_str(got), card_name(i), want), obs));
                }
                let mut m = *bm;
                m.m[51 - i] = false;
                let am = Set::from_bits(after);
                for pbit in 0..52 {
                    if am.m[pbit] != m.m[pbit] {
                        return Some(Self::fail(ctx, step, "S3-peel", kind, "remove", format!("peel on {:#018x} {} returned {} but left {:#018x} {}; expected exactly that card removed", before, set_str(before), card_name(i), after, set_str(after)), obs));
                    }
                }
                // removing a card removes that card only: bits above the card range stay as they were
                for pbit in 52..64 {
                    if am.m[pbit] != bm.m[pbit] {
                        return Some(Self::fail(ctx, step, "S3-peel", kind, "remove-high-bits", format!("peel on {:#018x} {} returned {} and left {:#018x}: bit {} above the card range changed; expected exactly the returned card removed", before, set_str(before), card_name(i), after, pbit), obs));
                    }
                }
                *model = m;
                None
            }
        }
    }
}

// ---- generation ----------------------------------------------------------------------

// weights: Hand, Text, Raw, BuildFold, FoldIn, Has, Count, Single, Valid, Peel, Drain, HandNew, HandSet, FromHand, Env
const MIXES: [[u32; 15]; 5] = [
    [20, 14, 10, 6, 6, 8, 5, 4, 5, 6, 4, 5, 10, 8, 4],  // build heavy
    [8, 5, 6, 3, 4, 5, 3, 3, 3, 30, 12, 2, 4, 4, 4],   // peel heavy
    [8, 5, 6, 5, 30, 8, 4, 3, 4, 8, 4, 2, 4, 4, 4],    // fold heavy
    [8, 5, 6, 3, 5, 24, 10, 9, 10, 5, 3, 2, 4, 4, 4],  // query heavy
    [10, 8, 8, 4, 10, 12, 6, 5, 6, 12, 6, 3, 8, 6, 4], // balanced
];

struct Gen<'a> {
    rng: &'a mut Rng,
    nregs: usize,
    overflow_ok: bool,
    deep: bool,
    shadow: [u64; NREGS],
    hshadow: [(u8, [u8; 7]); NHANDS],
}

impl<'a> Gen<'a> {
    fn reg(&mut self) -> usize {
        self.rng.usize_below(self.nregs)
    }

    /// A register to operate on: usually one that holds something.
    fn live_reg(&mut self) -> usize {
        let live: Vec<usize> = (0..self.nregs).filter(|r| self.shadow[*r] != 0).collect();
        if !live.is_empty() && self.rng.chance(7, 8) {
            return *self.rng.pick(&live);
        }
        self.rng.usize_below(self.nregs)
    }

    fn raw_bits(&mut self) -> u64 {
        let r = &mut *self.rng;
        let mut v = match r.below(14) {
            0 => 0,
            1 => CARD_MASK,
            2 => card_bit(r.usize_below(52)),
            3 => {
                // a rank group
                let k = r.usize_below(13);
                (0..4).fold(0u64, |a, s| a | card_bit(s * 13 + k))
            }
            4 => {
                // a suit group
                let s = r.usize_below(4);
                (0..13).fold(0u64, |a, k| a | card_bit(s * 13 + k))
            }
            5 => r.next_u64() & r.next_u64() & r.next_u64() & CARD_MASK, // sparse
            6 => (r.next_u64() | r.next_u64()) & CARD_MASK,              // dense
            7 => {
                let n = 1 + r.usize_below(7);
                (0..n).fold(0u64, |a, _| a | card_bit(r.usize_below(52)))
            }
            8 => card_bit(0) | card_bit(51),
            9 => CARD_MASK & !card_bit(r.usize_below(52)),
            10 => card_bit(r.usize_below(52)) | card_bit(r.usize_below(52)),
            _ => r.next_u64() & CARD_MASK,
        };
        if self.overflow_ok {
            match self.rng.below(10) {
                0 => v |= 1u64 << 52,
                1 => v |= 1u64 << 63,
                2 => v |= 1u64 << (52 + self.rng.below(12)),
                3 => v |= !CARD_MASK,
                4 => v |= self.rng.next_u64() & !CARD_MASK,
                5 => v = self.rng.next_u64(),
                6 => v = 1u64 << 52,
                _ => {}
            }
        }
        v
    }

    fn query(&mut self, r: usize) -> u64 {
        let q = self.card_query(r);
        if !self.overflow_ok {
            return q;
        }
        let full = self.shadow[r];
        match self.rng.below(8) {
            0 => q | 1u64 << (52 + self.rng.below(12)),     // one high bit on top of a card query
            1 => (full & CARD_MASK) | 1u64 << (52 + self.rng.below(12)), // the set's cards plus a high bit
            2 => full,                                       // exactly the register, high bits included
            3 => !CARD_MASK,
            4 => u64::MAX,
            5 => full & !CARD_MASK,                          // only the register's own high bits
            _ => q,
        }
    }

    fn card_query(&mut self, r: usize) -> u64 {
        let s = self.shadow[r] & CARD_MASK;
        let rng = &mut *self.rng;
        let members: Vec<usize> = (0..52).filter(|i| s & card_bit(*i) != 0).collect();
        let non: Vec<usize> = (0..52).filter(|i| s & card_bit(*i) == 0).collect();
        match rng.below(9) {
            0 if !members.is_empty() => card_bit(*rng.pick(&members)),
            1 if !non.is_empty() => card_bit(*rng.pick(&non)),
            2 if members.len() >= 2 => {
                // a sub-multiset of members
                let mut q = 0;
                for m in &members {
                    if rng.chance(1, 2) {
                        q |= card_bit(*m);
                    }
                }
                if q == 0 {
                    q = card_bit(members[0]) | card_bit(members[1]);
                }
                q
            }
            3 if !members.is_empty() && !non.is_empty() => card_bit(*rng.pick(&members)) | card_bit(*rng.pick(&non)),
            4 if !non.is_empty() => s | card_bit(*rng.pick(&non)), // strict superset
            5 => 0,
            6 => s,
            7 => CARD_MASK,
            _ => rng.next_u64() & rng.next_u64() & CARD_MASK,
        }
    }

    fn slots(&mut self, n: usize) -> [u8; 7] {
        let mut s = [BLANK_SLOT; 7];
        let style = self.rng.below(6);
        for k in 0..n {
            s[k] = match style {
                0 => self.rng.below(52) as u8,                                    // mostly distinct
                1 => if self.rng.chance(1, 3) { BLANK_SLOT } else { self.rng.below(52) as u8 },
                2 => if k > 0 && self.rng.chance(1, 2) { s[self.rng.usize_below(k)] } else { self.rng.below(52) as u8 },
                3 => BLANK_SLOT,
                4 => if k > 0 { s[0] } else { self.rng.below(52) as u8 },       // all the same card
                _ => self.rng.below(53) as u8,
            };
        }
        if style == 3 && self.rng.chance(1, 2) {
            let k = self.rng.usize_below(n);
            s[k] = self.rng.below(52) as u8;
        }
        s
    }

    fn tokens(&mut self) -> (Vec<Tok>, Vec<u8>) {
        let n = match self.rng.below(if self.deep { 9 } else { 8 }) {
            8 => {
                if self.rng.chance(1, 16) {
                    300 + self.rng.usize_below(2200) // several KB of text
                } else {
                    61 + self.rng.usize_below(240)
                }
            }
            0 => 0,
            1 => 1,
            2..=4 => 2 + self.rng.usize_below(6),
            5 | 6 => 8 + self.rng.usize_below(10),
            _ => 18 + self.rng.usize_below(43),
        };
        let junk_rate = *self.rng.pick(&[0u64, 0, 1, 3]);
        let mut toks = Vec::with_capacity(n);
        for k in 0..n {
            if self.rng.below(10) < junk_rate {
                // the hand-picked junk three times in four, otherwise a single character of any kind
                let v = self.rng.below((JUNK.len() * 3 + JUNK_CODES - JUNK.len()) as u64) as usize;
                toks.push(Tok::Junk(if v < JUNK.len() * 3 { v % JUNK.len() } else { v - JUNK.len() * 2 } as u8));
            } else if k > 0 && self.rng.chance(1, 8) {
                // repeat an earlier token's card in another spelling
                let prev = toks[self.rng.usize_below(k)].clone();
                match prev {
                    Tok::Card { idx, .. } => toks.push(Tok::Card { idx, spell: self.rng.below(12) as u8, tail: 0 }),
                    j => toks.push(j),
                }
            } else {
                // a hand-picked tail, or one or two characters of any kind (NUL, controls, punctuation, …)
                let tail = if self.rng.chance(1, 16) {
                    let v = self.rng.below(144 + 255);
                    if v < 144 {
                        1 + (v % (TAILS.len() as u64 - 1)) as u8
                    } else {
                        1 + (v - 144) as u8
                    }
                } else {
                    0
                };
                let (idx, spell) = (self.rng.below(52) as u8, self.rng.below(12) as u8);
                toks.push(Tok::Card { idx, spell, tail });
                if junk_rate > 0 && self.rng.chance(1, 8) {
                    // a look-alike of the token just parsed, right behind it
                    toks.push(Tok::Alias { idx, spell, mode: self.rng.below(12) as u8 });
                }
            }
        }
        // separator class per text: plain spaces, ASCII whitespace, any Unicode whitespace
        let class = self.rng.below(4);
        let seps: Vec<u8> = (0..n.saturating_sub(1))
            .map(|_| match class {
                0 | 1 => 0,
                2 => self.rng.below(ASCII_SEPARATORS as u64) as u8,
                _ => {
                    // one of the 28 single separators, or (three gaps in four) a run of several
                    // whitespace characters; one draw either way
                    let v = self.rng.below(28 * 4 + 200);
                    if v < 256 {
                        v as u8
                    } else {
                        ((v - 256) % 28) as u8
                    }
                }
            })
            .collect();
        (toks, seps)
    }
}

fn model_of_slots(n: usize, slots: &[u8; 7]) -> u64 {
    slots[..n].iter().filter(|s| **s < 52).fold(0u64, |a, s| a | card_bit(*s as usize))
}

impl World for C15 {
    type Op = Op;

    fn id() -> &'static str {
        "C15"
    }
    fn op_kinds() -> &'static [&'static str] {
        &KINDS
    }
    fn probe_names() -> Vec<String> {
        PROBE_LIST.iter().map(|s| s.to_string()).collect()
    }
    fn cell_bits() -> usize {
        CELL_BITS
    }
    fn cell_rule() -> &'static str {
        "abstract step cell = (operation kind, bucket of the number of cards in the register before the step: 0,1,2,3-7,8-25,26-51,52, whether it had bits above bit 51, result class of the operation)"
    }
    fn nontrivial_rule() -> &'static str {
        "a seeded history is non-trivial when it contains at least one peel or drain of a set that holds a card, or a fold-in into a set that holds a card; distinct = distinct digest of the full event log (operations, arguments, every returned value and every register value after every step)"
    }

    fn generate(rng: &mut Rng, obs: &mut Obs) -> Vec<Op> {
        let p = probes();
        let nregs = 1 + rng.usize_below(NREGS);
        let mix = rng.usize_below(5);
        let overflow_ok = rng.chance(2, 5);
        // one run in 256 is a long-lived history on one or two sets
        let deep = crate::sim::depth() >= 1 && rng.chance(1, 2);
        let xl = if deep { rng.below(8) == 0 } else { rng.below(256) == 0 };
        let nregs = if xl { 1 + rng.usize_below(if deep { 4 } else { 2 }) } else { nregs };
        let len = if xl {
            200 + rng.usize_below(if deep { 801 } else { 401 })
        } else {
            match rng.below(3) {
                0 => 1 + rng.usize_below(3),
                1 => 4 + rng.usize_below(9),
                _ => 13 + rng.usize_below(MAX_LEN - 12),
            }
        };
        obs.hit(p.mix + mix);
        obs.hit(if overflow_ok { p.over_allowed } else { p.over_never });
        obs.hit(if len <= 3 {
            p.len_s
        } else if len <= 12 {
            p.len_m
        } else if len <= MAX_LEN {
            p.len_l
        } else {
            p.len_xl
        });
        obs.hit(if nregs <= 2 {
            p.regs_a
        } else if nregs <= 5 {
            p.regs_b
        } else {
            p.regs_c
        });
        let mut g = Gen { rng, nregs, overflow_ok, deep, shadow: [0; NREGS], hshadow: [(0, [BLANK_SLOT; 7]); NHANDS] };
        let mut ops = Vec::with_capacity(len);
        while ops.len() < len {
            // the first operation of a run always builds something
            let kind = if ops.is_empty() { g.rng.weighted(&[20, 14, 10, 6]) } else { g.rng.weighted(&MIXES[mix]) };
            let op = match kind {
                K_HAND => {
                    let n = 2 + g.rng.usize_below(6);
                    let slots = g.slots(n);
                    let dst = g.reg();
                    g.shadow[dst] = model_of_slots(n, &slots);
                    Op::BuildHand { dst: dst as u8, n: n as u8, slots, via_setters: g.rng.chance(1, 4), order: g.rng.below(256) as u8 }
                }
                K_TEXT => {
                    let (tokens, seps) = g.tokens();
                    let dst = g.reg();
                    g.shadow[dst] = tokens.iter().fold(0u64, |a, t| match t {
                        Tok::Card { idx, .. } => a | card_bit(*idx as usize),
                        _ => a,
                    });
                    {
                        let edge = |g: &mut Gen| -> u8 {
                            match g.rng.below(12) {
                                0 => 1,
                                1 => 1 + g.rng.below(255) as u8,
                                _ => 0,
                            }
                        };
                        let (lead, trail) = (edge(&mut g), edge(&mut g));
                        Op::BuildText { dst: dst as u8, tokens, seps, lead, trail }
                    }
                }
                K_RAW => {
                    let bits = g.raw_bits();
                    let dst = g.reg();
                    g.shadow[dst] = bits;
                    Op::BuildRaw { dst: dst as u8, bits }
                }
                K_BFOLD => {
                    let n = g.rng.usize_below(10);
                    let cards: Vec<u8> = (0..n).map(|_| g.rng.below(52) as u8).collect();
                    let dst = g.reg();
                    g.shadow[dst] = cards.iter().fold(0u64, |a, c| a | card_bit(*c as usize));
                    Op::BuildFold { dst: dst as u8, cards }
                }
                K_FOLDIN => {
                    let a = g.live_reg();
                    let dst = if g.rng.chance(2, 3) { a } else { g.reg() };
                    let b = if g.rng.chance(1, 2) {
                        Src::Reg(g.live_reg() as u8)
                    } else {
                        match g.rng.below(4) {
                            0 => Src::Raw(card_bit(g.rng.usize_below(52))),
                            1 => Src::Raw(g.shadow[a] & g.rng.next_u64() & CARD_MASK), // subset of a
                            _ => Src::Raw(g.raw_bits()),
                        }
                    };
                    let bv = match &b {
                        Src::Reg(r) => g.shadow[*r as usize],
                        Src::Raw(x) => *x,
                    };
                    g.shadow[dst] = g.shadow[a] | bv;
                    Op::FoldIn { dst: dst as u8, a: a as u8, b }
                }
                K_HAS => {
                    let r = g.live_reg();
                    let q = g.query(r);
                    Op::Has { r: r as u8, q }
                }
                K_COUNT => Op::Count { r: g.live_reg() as u8 },
                K_SINGLE => Op::Single { r: g.live_reg() as u8 },
                K_VALID => Op::Valid { r: g.live_reg() as u8 },
                K_PEEL => {
                    let r = g.live_reg();
                    let s = g.shadow[r] & CARD_MASK;
                    if s != 0 {
                        // shadow of peel: clear the highest card bit
                        let top = 63 - s.leading_zeros();
                        g.shadow[r] &= !(1u64 << top);
                    }
                    Op::Peel { r: r as u8 }
                }
                K_DRAIN => {
                    let r = g.live_reg();
                    g.shadow[r] &= !CARD_MASK;
                    Op::Drain { r: r as u8 }
                }
                K_ENV => Op::Env { r: g.reg() as u8, which: g.rng.below(16) as u8 },
                K_HSET | K_FROMH if g.hshadow.iter().any(|h| h.0 > 0) => {
                    let live: Vec<usize> = (0..NHANDS).filter(|h| g.hshadow[*h].0 > 0).collect();
                    let h = *g.rng.pick(&live);
                    let n = g.hshadow[h].0 as usize;
                    if kind == K_HSET {
                        let k = g.rng.usize_below(n);
                        // often a card the hand already holds somewhere (duplicates are where
                        // incremental bookkeeping goes wrong), sometimes blank, else any card
                        let slot = match g.rng.below(6) {
                            0 | 1 => g.hshadow[h].1[g.rng.usize_below(n)],
                            2 => BLANK_SLOT,
                            _ => g.rng.below(52) as u8,
                        };
                        g.hshadow[h].1[k] = slot;
                        Op::HandSet { h: h as u8, k: k as u8, slot }
                    } else {
                        let dst = g.reg();
                        g.shadow[dst] = model_of_slots(n, &g.hshadow[h].1);
                        Op::FromHand { dst: dst as u8, h: h as u8 }
                    }
                }
                _ => {
                    let h = g.rng.usize_below(NHANDS);
                    let n = 2 + g.rng.usize_below(6);
                    let slots = g.slots(n);
                    g.hshadow[h] = (n as u8, slots);
                    Op::HandNew { h: h as u8, n: n as u8, slots }
                }
            };
            ops.push(op);
        }
        ops
    }

    fn execute(ops: &[Op], obs: &mut Obs) -> Outcome {
        C15::exec(ops, obs)
    }

    fn directed() -> Vec<(String, Vec<Op>)> {
        let mut out: Vec<(String, Vec<Op>)> = Vec::new();
        let probe_all = |name: String, bits: u64, out: &mut Vec<(String, Vec<Op>)>| {
            let mut ops = vec![Op::BuildRaw { dst: 0, bits }, Op::Count { r: 0 }, Op::Valid { r: 0 }, Op::Single { r: 0 }];
            // a `has` sweep: every single card, the set itself, the empty query
            for i in 0..52 {
                ops.push(Op::Has { r: 0, q: card_bit(i) });
            }
            ops.push(Op::Has { r: 0, q: bits & CARD_MASK });
            ops.push(Op::Has { r: 0, q: 0 });
            ops.push(Op::Has { r: 0, q: CARD_MASK });
            // queries that carry bits above the card range: subset test over the whole 64-bit value
            ops.push(Op::Has { r: 0, q: bits });
            ops.push(Op::Has { r: 0, q: bits | 1u64 << 52 });
            ops.push(Op::Has { r: 0, q: (bits & CARD_MASK) | 1u64 << 63 });
            ops.push(Op::Has { r: 0, q: !CARD_MASK });
            ops.push(Op::Has { r: 0, q: u64::MAX });
            ops.push(Op::Drain { r: 0 });
            ops.push(Op::Count { r: 0 });
            ops.push(Op::Valid { r: 0 });
            out.push((name, ops));
        };
        probe_all("empty set".into(), 0, &mut out);
        for i in 0..52 {
            probe_all(format!("singleton {}", card_name(i)), card_bit(i), &mut out);
        }
        for k in 0..13 {
            let v = (0..4).fold(0u64, |a, s| a | card_bit(s * 13 + k));
            probe_all(format!("rank group {}", k), v, &mut out);
        }
        for s in 0..4 {
            let v = (0..13).fold(0u64, |a, k| a | card_bit(s * 13 + k));
            probe_all(format!("suit group {}", s), v, &mut out);
        }
        probe_all("full deck".into(), CARD_MASK, &mut out);
        for b in 52..64 {
            probe_all(format!("only bit {}", b), 1u64 << b, &mut out);
            probe_all(format!("ace of spades plus bit {}", b), card_bit(0) | 1u64 << b, &mut out);
        }
        probe_all("full deck plus all overflow bits".into(), u64::MAX, &mut out);
        // every adjacent pair in deck order: peel must give the earlier one first
        for i in 0..51 {
            out.push((format!("adjacent pair {} {}", card_name(i), card_name(i + 1)), vec![Op::BuildRaw { dst: 0, bits: card_bit(i) | card_bit(i + 1) }, Op::Peel { r: 0 }, Op::Peel { r: 0 }, Op::Peel { r: 0 }]));
        }
        // every card through every slot of every hand size, with blanks elsewhere and with a duplicate
        for n in 2..=7u8 {
            for k in 0..n as usize {
                let mut ops = Vec::new();
                for c in 0..52u8 {
                    let mut slots = [BLANK_SLOT; 7];
                    slots[k] = c;
                    ops.push(Op::BuildHand { dst: 0, n, slots, via_setters: false, order: 0 });
                    let mut dup = [c; 7];
                    dup[k] = (c + 1) % 52;
                    ops.push(Op::BuildHand { dst: 1, n, slots: dup, via_setters: c % 2 == 0, order: c });
                }
                out.push((format!("every card through slot {} of {}", k, FROM_NAMES[n as usize]), ops));
            }
            let mut distinct = [0u8; 7];
            for k in 0..7 {
                distinct[k] = (k * 9) as u8 % 52;
            }
            out.push((format!("{} of distinct cards then drain", FROM_NAMES[n as usize]), vec![Op::BuildHand { dst: 0, n, slots: distinct, via_setters: false, order: 0 }, Op::Count { r: 0 }, Op::Valid { r: 0 }, Op::Drain { r: 0 }]));
            out.push((format!("{} all blank", FROM_NAMES[n as usize]), vec![Op::BuildHand { dst: 0, n, slots: [BLANK_SLOT; 7], via_setters: false, order: 0 }, Op::Count { r: 0 }, Op::Valid { r: 0 }, Op::Peel { r: 0 }]));
        }
        // text: every spelling of every card; the whole deck in one text; junk in the middle
        for i in 0..52u8 {
            let mut ops = Vec::new();
            for sp in 0..spellings(i as usize) as u8 {
                ops.push(Op::BuildText { dst: 0, tokens: vec![Tok::Card { idx: i, spell: sp, tail: if sp == 5 { (i % 5) + 1 } else { 0 } }], seps: vec![], lead: (sp % 2 == 1) as u8, trail: if sp % 3 == 1 { 1 + sp } else { 0 } });
                ops.push(Op::Count { r: 0 });
            }
            out.push((format!("every spelling of {}", card_name(i as usize)), ops));
        }
        for i in 0..52u8 {
            let mut ops = Vec::new();
            for sp in 0..spellings(i as usize) as u8 {
                for mode in 0..12u8 {
                    ops.push(Op::BuildText { dst: 0, tokens: vec![Tok::Card { idx: i, spell: sp, tail: 0 }, Tok::Alias { idx: i, spell: sp, mode }], seps: vec![0], lead: 0, trail: 0 });
                    ops.push(Op::BuildText { dst: 1, tokens: vec![Tok::Alias { idx: i, spell: sp, mode }], seps: vec![], lead: 0, trail: 0 });
                    ops.push(Op::Valid { r: 1 });
                }
            }
            out.push((format!("look-alike aliases of {}", card_name(i as usize)), ops));
        }
        // every whitespace character on its own: between two cards, before the first, after the last
        for (si, _) in SEPARATORS.iter().enumerate() {
            let si = si as u8;
            let two = vec![Tok::Card { idx: 0, spell: 0, tail: 0 }, Tok::Card { idx: 14, spell: 3, tail: 0 }];
            out.push((
                format!("separator #{} between, before and after", si),
                vec![
                    Op::BuildText { dst: 0, tokens: two.clone(), seps: vec![si], lead: 0, trail: 0 },
                    Op::Count { r: 0 },
                    Op::BuildText { dst: 1, tokens: two.clone(), seps: vec![si], lead: si + 1, trail: si + 1 },
                    Op::Count { r: 1 },
                    Op::BuildText { dst: 2, tokens: vec![Tok::Card { idx: 30, spell: 5, tail: 0 }], seps: vec![], lead: si + 1, trail: 0 },
                    Op::Single { r: 2 },
                    Op::BuildText { dst: 3, tokens: vec![Tok::Card { idx: 30, spell: 5, tail: 0 }, Tok::Junk(0), Tok::Card { idx: 51, spell: 7, tail: 0 }, Tok::Card { idx: 8, spell: 1, tail: 0 }], seps: vec![si, si, si], lead: 0, trail: si + 1 },
                    Op::Drain { r: 3 },
                ],
            ));
        }
        // runs of whitespace: every White_Space character next to every other one, in both orders,
        // doubled, beside ASCII blanks, around line breaks, in runs of three to five — between
        // tokens, before the first and after the last. 26 cards give 25 gaps, so that in one text
        // the character chosen by the code meets all 25 partners.
        for style in 0..SEPARATOR_RUN_STYLES {
            for a in 0..25usize {
                let code = (28 + 25 * style + a) as u8;
                let toks: Vec<Tok> = (0..26u8).map(|i| Tok::Card { idx: ((a as u8) * 2 + i * 3) % 52, spell: (i + style as u8) % 12, tail: 0 }).collect();
                out.push((
                    format!("whitespace runs style {} with character #{}", style, a),
                    vec![
                        Op::BuildText { dst: 0, tokens: toks.clone(), seps: vec![code; 25], lead: 0, trail: 0 },
                        Op::Count { r: 0 },
                        Op::BuildText { dst: 1, tokens: toks[..3].to_vec(), seps: vec![code, code], lead: code + 1, trail: code + 1 },
                        Op::Count { r: 1 },
                        Op::Drain { r: 0 },
                    ],
                ));
            }
        }
        // card tokens with every tail, short and long (C12: a token is a card iff it starts with rank+suit)
        for t in 1..=255u8 {
            let toks: Vec<Tok> = [0u8, 17, 30, 51].iter().map(|i| Tok::Card { idx: *i, spell: (*i % 12), tail: t }).collect();
            out.push((format!("card tokens with tail #{}", t), vec![Op::BuildText { dst: 0, tokens: toks, seps: vec![0, 2, 3], lead: 0, trail: 0 }, Op::Count { r: 0 }, Op::Drain { r: 0 }]));
        }
        let whole: Vec<Tok> = (0..52u8).rev().map(|i| Tok::Card { idx: i, spell: i % 12, tail: 0 }).collect();
        out.push(("whole deck as text, reversed, then drain".into(), vec![Op::BuildText { dst: 0, tokens: whole.clone(), seps: (0..51).map(|i| (i as usize % SEPARATORS.len()) as u8).collect(), lead: 8, trail: 4 }, Op::Count { r: 0 }, Op::Drain { r: 0 }]));
        let mut junky: Vec<Tok> = Vec::new();
        for (n, t) in whole.iter().enumerate() {
            junky.push(t.clone());
            if n % 3 == 0 {
                junky.push(Tok::Junk((n / 3) as u8));
            }
        }
        out.push(("whole deck with junk between".into(), vec![Op::BuildText { dst: 0, tokens: junky, seps: vec![], lead: 0, trail: 0 }, Op::Count { r: 0 }, Op::Drain { r: 0 }]));
        for j in 0..JUNK_CODES as u8 {
            out.push((format!("junk token {:?} alone and between cards", junk_str(j)), vec![Op::BuildText { dst: 0, tokens: vec![Tok::Junk(j)], seps: vec![], lead: 0, trail: 0 }, Op::Valid { r: 0 }, Op::BuildText { dst: 1, tokens: vec![Tok::Card { idx: 3, spell: 0, tail: 0 }, Tok::Junk(j), Tok::Card { idx: 40, spell: 3, tail: 0 }], seps: vec![0, 2], lead: 0, trail: 0 }, Op::Count { r: 1 }, Op::Drain { r: 1 }]));
        }
        out.push(("empty text".into(), vec![Op::BuildText { dst: 0, tokens: vec![], seps: vec![], lead: 1, trail: 0 }, Op::Valid { r: 0 }, Op::Peel { r: 0 }]));
        // every pair of cards: peel order, subset queries, two-slot hands in both orders
        for i in 0..52usize {
            let mut ops = Vec::new();
            for j in 0..52usize {
                if i < j {
                    ops.push(Op::BuildRaw { dst: 0, bits: card_bit(i) | card_bit(j) });
                    ops.push(Op::Peel { r: 0 });
                    ops.push(Op::Peel { r: 0 });
                    ops.push(Op::Peel { r: 0 });
                }
                ops.push(Op::BuildRaw { dst: 1, bits: card_bit(i) });
                ops.push(Op::Has { r: 1, q: card_bit(i) | card_bit(j) });
                ops.push(Op::Has { r: 1, q: card_bit(j) });
                ops.push(Op::BuildHand { dst: 2, n: 2, slots: [i as u8, j as u8, BLANK_SLOT, BLANK_SLOT, BLANK_SLOT, BLANK_SLOT, BLANK_SLOT], via_setters: false, order: 0 });
                ops.push(Op::FoldIn { dst: 3, a: 1, b: Src::Raw(card_bit(j)) });
                ops.push(Op::Count { r: 3 });
            }
            ops.push(Op::BuildHand { dst: 2, n: 2, slots: [i as u8, BLANK_SLOT, BLANK_SLOT, BLANK_SLOT, BLANK_SLOT, BLANK_SLOT, BLANK_SLOT], via_setters: false, order: 0 });
            ops.push(Op::BuildHand { dst: 2, n: 2, slots: [BLANK_SLOT, i as u8, BLANK_SLOT, BLANK_SLOT, BLANK_SLOT, BLANK_SLOT, BLANK_SLOT], via_setters: true, order: 1 });
            out.push((format!("pairs with {}", card_name(i)), ops));
        }
        // prefixes and suffixes of the deck: counts 0..52, validity, drain length
        for k in 0..=52usize {
            let prefix = (0..k).fold(0u64, |a, i| a | card_bit(i));
            let suffix = (52 - k..52).fold(0u64, |a, i| a | card_bit(i));
            out.push((format!("deck prefix and suffix of {} cards", k), vec![Op::BuildRaw { dst: 0, bits: prefix }, Op::Count { r: 0 }, Op::Valid { r: 0 }, Op::Single { r: 0 }, Op::Drain { r: 0 }, Op::BuildRaw { dst: 1, bits: suffix }, Op::Count { r: 1 }, Op::Has { r: 1, q: prefix }, Op::Drain { r: 1 }, Op::Valid { r: 1 }]));
        }
        // text with exactly k tokens, k = 0..60 (a token-count limit shows here), plain and with odd separators
        for k in (0..=60usize).chain([64, 65, 100, 128, 129, 200, 513, 1000, 1025, 2000, 4097, 5000]) {
            // more than 52 tokens: the first ones repeat one card, so that new cards keep appearing up to the last token
            let pad = k.saturating_sub(52);
            let toks: Vec<Tok> = (0..k).map(|t| Tok::Card { idx: if t < pad { 0 } else { ((t - pad) * 37 % 52) as u8 }, spell: (t % 12) as u8, tail: 0 }).collect();
            out.push((format!("text with {} tokens", k), vec![Op::BuildText { dst: 0, tokens: toks.clone(), seps: vec![], lead: 0, trail: 0 }, Op::Count { r: 0 }, Op::BuildText { dst: 1, tokens: toks, seps: (0..k).map(|t| ((t + k) % SEPARATORS.len()) as u8).collect(), lead: if k % 2 == 0 { 1 + (k % SEPARATORS.len()) as u8 } else { 0 }, trail: (k % 3 == 0) as u8 }, Op::Count { r: 1 }]));
        }
        // interleaved peeling of several sets (hidden shared state between peels would show here)
        out.push((
            "interleaved peels on three sets".into(),
            {
                let mut ops = vec![Op::BuildRaw { dst: 0, bits: CARD_MASK }, Op::BuildRaw { dst: 1, bits: (0..13).fold(0u64, |a, k| a | card_bit(13 + k)) }, Op::BuildRaw { dst: 2, bits: card_bit(51) | card_bit(0) | 1u64 << 60 }];
                for t in 0..60 {
                    ops.push(Op::Peel { r: (t % 3) as u8 });
                    if t % 7 == 0 {
                        ops.push(Op::Count { r: ((t + 1) % 3) as u8 });
                    }
                }
                ops
            },
        ));
        // live hand containers: a duplicate is overwritten through a setter, then converted; every size
        for n in 2..=7u8 {
            let mut ops = Vec::new();
            for a in [0u8, 17, 51] {
                for k in 0..n {
                    for j in 0..n {
                        if j == k {
                            continue;
                        }
                        let mut slots = [BLANK_SLOT; 7];
                        for t in 0..n as usize {
                            slots[t] = ((a as usize + 3 * t + 1) % 52) as u8;
                        }
                        slots[k as usize] = a;
                        slots[j as usize] = a;
                        ops.push(Op::HandNew { h: 0, n, slots });
                        ops.push(Op::FromHand { dst: 0, h: 0 });
                        ops.push(Op::HandSet { h: 0, k, slot: (a + 5) % 52 }); // one copy replaced: the other still holds the card
                        ops.push(Op::FromHand { dst: 1, h: 0 });
                        ops.push(Op::HandSet { h: 0, k: j, slot: BLANK_SLOT }); // now it is really gone
                        ops.push(Op::FromHand { dst: 2, h: 0 });
                        ops.push(Op::HandSet { h: 0, k, slot: a }); // and back
                        ops.push(Op::FromHand { dst: 3, h: 0 });
                    }
                }
            }
            out.push((format!("hand register {}: overwrite one of two equal cards, convert", FROM_NAMES[n as usize]), ops));
        }
        // two copies of one set, peeled alternately; a copy peeked at, then the original drained
        // (anything remembered from one peel to the next, keyed on the set's value, shows here)
        for (name, bits) in [("aces", (0..4).fold(0u64, |a, s| a | card_bit(s * 13))), ("full deck", CARD_MASK), ("one card", card_bit(17)), ("two cards and a high bit", card_bit(3) | card_bit(30) | 1u64 << 55), ("spades", (0..13).fold(0u64, |a, k| a | card_bit(k)))] {
            let mut ops = vec![Op::BuildRaw { dst: 0, bits }, Op::BuildRaw { dst: 1, bits }];
            for _ in 0..6 {
                ops.push(Op::Peel { r: 0 });
                ops.push(Op::Peel { r: 1 });
            }
            ops.push(Op::BuildRaw { dst: 2, bits });
            ops.push(Op::FoldIn { dst: 3, a: 2, b: Src::Raw(0) }); // a copy made by the crate
            ops.push(Op::Peel { r: 3 }); // peek
            ops.push(Op::Drain { r: 2 }); // the original still lists everything
            ops.push(Op::BuildRaw { dst: 4, bits });
            ops.push(Op::Drain { r: 4 });
            ops.push(Op::BuildRaw { dst: 4, bits }); // the same value again, drained again
            ops.push(Op::Drain { r: 4 });
            out.push((format!("copies of one set ({}) peeled alternately, peeked, re-drained", name), ops));
        }
        // folds
        out.push((
            "fold the deck card by card, then fold halves together".into(),
            vec![
                Op::BuildFold { dst: 0, cards: (0..52).collect() },
                Op::Count { r: 0 },
                Op::BuildFold { dst: 1, cards: (0..30).collect() },
                Op::BuildFold { dst: 2, cards: (20..52).collect() },
                Op::FoldIn { dst: 3, a: 1, b: Src::Reg(2) },
                Op::Has { r: 3, q: CARD_MASK },
                Op::FoldIn { dst: 1, a: 1, b: Src::Reg(1) },
                Op::Count { r: 1 },
                Op::FoldIn { dst: 4, a: 4, b: Src::Raw(0) },
                Op::Valid { r: 4 },
                Op::Drain { r: 3 },
            ],
        ));
        for i in 0..52 {
            out.push((format!("fold single {} into empty and into full-minus-it", card_name(i)), vec![Op::FoldIn { dst: 0, a: 0, b: Src::Raw(card_bit(i)) }, Op::Single { r: 0 }, Op::BuildRaw { dst: 1, bits: CARD_MASK & !card_bit(i) }, Op::FoldIn { dst: 1, a: 1, b: Src::Reg(0) }, Op::Count { r: 1 }, Op::Has { r: 1, q: CARD_MASK }]));
        }
        out
    }

    fn conc_history(rng: &mut Rng, shape: u64) -> Option<Vec<Op>> {
        let n = 2 + (shape >> 4) as u8 % 6;
        let reps = 1 + (shape >> 12) as usize % 3;
        let mut ops = Vec::new();
        let mut slots = [BLANK_SLOT; 7];
        for k in 0..n as usize {
            slots[k] = rng.below(53) as u8;
        }
        match shape % 7 {
            6 => {
                // a long run of conversions and peels (room for something that only goes wrong after
                // many calls by the other callers)
                for t in 0..(40 + rng.usize_below(40)) {
                    let mut sl = [BLANK_SLOT; 7];
                    for k in 0..n as usize {
                        sl[k] = rng.below(53) as u8;
                    }
                    ops.push(Op::BuildHand { dst: (t % 2) as u8, n, slots: sl, via_setters: false, order: 0 });
                    ops.push(Op::Peel { r: (t % 2) as u8 });
                }
            }
            0 => {
                // the same hand converted several times
                for _ in 0..=reps {
                    ops.push(Op::BuildHand { dst: 0, n, slots, via_setters: false, order: 0 });
                }
                ops.push(Op::Count { r: 0 });
            }
            1 => {
                // a live hand converted, changed by one setter, converted again, twice each
                ops.push(Op::HandNew { h: 0, n, slots });
                for _ in 0..=reps {
                    ops.push(Op::FromHand { dst: 0, h: 0 });
                }
                ops.push(Op::HandSet { h: 0, k: rng.below(n as u64) as u8, slot: rng.below(53) as u8 });
                for _ in 0..=reps {
                    ops.push(Op::FromHand { dst: 1, h: 0 });
                }
            }
            2 => {
                let toks: Vec<Tok> = (0..1 + rng.usize_below(5)).map(|_| Tok::Card { idx: rng.below(52) as u8, spell: rng.below(12) as u8, tail: 0 }).collect();
                for _ in 0..=reps {
                    ops.push(Op::BuildText { dst: 0, tokens: toks.clone(), seps: vec![], lead: 0, trail: 0 });
                }
                ops.push(Op::Count { r: 0 });
            }
            3 => {
                // the same set value peeled from two registers, and drained
                let bits = rng.next_u64() & rng.next_u64() & CARD_MASK;
                ops.push(Op::BuildRaw { dst: 0, bits });
                ops.push(Op::BuildRaw { dst: 1, bits });
                for _ in 0..=reps {
                    ops.push(Op::Peel { r: 0 });
                    ops.push(Op::Peel { r: 1 });
                }
                ops.push(Op::Drain { r: 0 });
            }
            4 => {
                let (a, b) = (rng.next_u64() & rng.next_u64() & CARD_MASK, rng.next_u64() & rng.next_u64() & CARD_MASK);
                ops.push(Op::BuildRaw { dst: 0, bits: a });
                for _ in 0..=reps {
                    ops.push(Op::FoldIn { dst: 1, a: 0, b: Src::Raw(b) });
                    ops.push(Op::Has { r: 1, q: b });
                    ops.push(Op::Count { r: 1 });
                }
            }
            _ => {
                let bits = rng.next_u64() & CARD_MASK;
                ops.push(Op::BuildRaw { dst: 0, bits });
                for _ in 0..=reps {
                    ops.push(Op::Count { r: 0 });
                    ops.push(Op::Valid { r: 0 });
                    ops.push(Op::Single { r: 0 });
                    ops.push(Op::Has { r: 0, q: bits & rng.next_u64() });
                }
            }
        }
        Some(ops)
    }

    fn anchored_files() -> &'static [&'static str] {
        &["/src/cards/binary_card.rs", "/src/lib.rs", "/src/parse.rs"]
    }

    fn builder_kinds() -> &'static [usize] {
        &[K_HAND, K_TEXT, K_RAW, K_BFOLD, K_HNEW]
    }

    fn op_kind(op: &Op) -> usize {
        match op {
            Op::BuildHand { .. } => K_HAND,
            Op::BuildText { .. } => K_TEXT,
            Op::BuildRaw { .. } => K_RAW,
            Op::BuildFold { .. } => K_BFOLD,
            Op::FoldIn { .. } => K_FOLDIN,
            Op::Has { .. } => K_HAS,
            Op::Count { .. } => K_COUNT,
            Op::Single { .. } => K_SINGLE,
            Op::Valid { .. } => K_VALID,
            Op::Peel { .. } => K_PEEL,
            Op::Drain { .. } => K_DRAIN,
            Op::HandNew { .. } => K_HNEW,
            Op::HandSet { .. } => K_HSET,
            Op::FromHand { .. } => K_FROMH,
            Op::Env { .. } => K_ENV,
        }
    }

    fn op_to_json(op: &Op) -> J {
        let u = |x: u8| J::Int(x as i128);
        let slot_name = |s: u8| if s < 52 { J::str(&card_name(s as usize)) } else { J::str("__") };
        match op {
            Op::BuildHand { dst, n, slots, via_setters, order } => J::obj()
                .with("op", J::str("BuildHand"))
                .with("dst", u(*dst))
                .with("n", u(*n))
                .with("slots", J::Arr(slots[..(*n as usize).clamp(2, 7)].iter().map(|s| u(*s)).collect()))
                .with("slot_names", J::Arr(slots[..(*n as usize).clamp(2, 7)].iter().map(|s| slot_name(*s)).collect()))
                .with("via_setters", J::Bool(*via_setters))
                .with("order", u(*order)),
            Op::BuildText { dst, tokens, seps, lead, trail } => J::obj()
                .with("op", J::str("BuildText"))
                .with("dst", u(*dst))
                .with(
                    "tokens",
                    J::Arr(
                        tokens
                            .iter()
                            .map(|t| match t {
                                Tok::Card { idx, spell, tail } => J::obj().with("card", u(*idx)).with("spell", u(*spell)).with("tail", u(*tail)),
                                Tok::Junk(j) => J::obj().with("junk", u(*j)),
                                Tok::Alias { idx, spell, mode } => J::obj().with("alias_of", u(*idx)).with("spell", u(*spell)).with("mode", u(*mode)),
                            })
                            .collect(),
                    ),
                )
                .with("seps", J::Arr(seps.iter().map(|s| u(*s)).collect()))
                .with("lead", u(*lead))
                .with("trail", u(*trail))
                .with("text", J::Str(text_of(tokens, seps, *lead, *trail))),
            Op::BuildRaw { dst, bits } => J::obj().with("op", J::str("BuildRaw")).with("dst", u(*dst)).with("bits", J::hex64(*bits)),
            Op::BuildFold { dst, cards } => J::obj().with("op", J::str("BuildFold")).with("dst", u(*dst)).with("cards", J::Arr(cards.iter().map(|c| u(*c)).collect())),
            Op::FoldIn { dst, a, b } => {
                let j = J::obj().with("op", J::str("FoldIn")).with("dst", u(*dst)).with("a", u(*a));
                match b {
                    Src::Reg(r) => j.with("b_reg", u(*r)),
                    Src::Raw(x) => j.with("b_raw", J::hex64(*x)),
                }
            }
            Op::Has { r, q } => J::obj().with("op", J::str("Has")).with("r", u(*r)).with("q", J::hex64(*q)),
            Op::Count { r } => J::obj().with("op", J::str("Count")).with("r", u(*r)),
            Op::Single { r } => J::obj().with("op", J::str("Single")).with("r", u(*r)),
            Op::Valid { r } => J::obj().with("op", J::str("Valid")).with("r", u(*r)),
            Op::Peel { r } => J::obj().with("op", J::str("Peel")).with("r", u(*r)),
            Op::Drain { r } => J::obj().with("op", J::str("Drain")).with("r", u(*r)),
            Op::HandNew { h, n, slots } => J::obj()
                .with("op", J::str("HandNew"))
                .with("h", u(*h))
                .with("n", u(*n))
                .with("slots", J::Arr(slots[..(*n as usize).clamp(2, 7)].iter().map(|s| u(*s)).collect()))
                .with("slot_names", J::Arr(slots[..(*n as usize).clamp(2, 7)].iter().map(|s| slot_name(*s)).collect())),
            Op::HandSet { h, k, slot } => J::obj().with("op", J::str("HandSet")).with("h", u(*h)).with("slot_index", u(*k)).with("card", u(*slot)).with("card_name", slot_name(*slot)),
            Op::FromHand { dst, h } => J::obj().with("op", J::str("FromHand")).with("dst", u(*dst)).with("h", u(*h)),
            Op::Env { r, which } => J::obj().with("op", J::str("Env")).with("r", u(*r)).with("which", u(*which)),
        }
    }

    fn op_from_json(j: &J) -> Result<Op, String> {
        let name = j.get("op").and_then(|x| x.as_str()).ok_or("op: missing name")?;
        let u8f = |k: &str| -> Result<u8, String> { j.get(k).and_then(|x| x.as_u64()).map(|x| x as u8).ok_or(format!("{}: missing field {}", name, k)) };
        let u64f = |k: &str| -> Result<u64, String> { j.get(k).and_then(|x| x.as_u64()).ok_or(format!("{}: missing field {}", name, k)) };
        let boolf = |k: &str| -> bool { j.get(k).and_then(|x| x.as_bool()).unwrap_or(false) };
        match name {
            "BuildHand" => {
                let arr = j.get("slots").and_then(|x| x.as_arr()).ok_or("BuildHand: missing slots")?;
                let mut slots = [BLANK_SLOT; 7];
                for (k, x) in arr.iter().take(7).enumerate() {
                    slots[k] = x.as_u64().ok_or("BuildHand: bad slot")? as u8;
                }
                Ok(Op::BuildHand { dst: u8f("dst")?, n: u8f("n")?, slots, via_setters: boolf("via_setters"), order: u8f("order").unwrap_or(0) })
            }
            "BuildText" => {
                let arr = j.get("tokens").and_then(|x| x.as_arr()).ok_or("BuildText: missing tokens")?;
                let mut tokens = Vec::new();
                for t in arr {
                    if let Some(c) = t.get("card") {
                        tokens.push(Tok::Card { idx: c.as_u64().ok_or("bad card")? as u8, spell: t.get("spell").and_then(|x| x.as_u64()).unwrap_or(0) as u8, tail: t.get("tail").and_then(|x| x.as_u64()).unwrap_or(0) as u8 });
                    } else if let Some(a) = t.get("alias_of") {
                        tokens.push(Tok::Alias { idx: a.as_u64().ok_or("bad alias")? as u8, spell: t.get("spell").and_then(|x| x.as_u64()).unwrap_or(0) as u8, mode: t.get("mode").and_then(|x| x.as_u64()).unwrap_or(0) as u8 });
                    } else if let Some(jk) = t.get("junk") {
                        tokens.push(Tok::Junk(jk.as_u64().ok_or("bad junk")? as u8));
                    } else {
                        return Err("BuildText: token needs card or junk".into());
                    }
                }
                let seps: Vec<u8> = j.get("seps").and_then(|x| x.as_arr()).map(|a| a.iter().filter_map(|x| x.as_u64()).map(|x| x as u8).collect()).unwrap_or_default();
                Ok(Op::BuildText { dst: u8f("dst")?, tokens, seps, lead: u8f("lead").unwrap_or(0), trail: u8f("trail").unwrap_or(0) })
            }
            "BuildRaw" => Ok(Op::BuildRaw { dst: u8f("dst")?, bits: u64f("bits")? }),
            "BuildFold" => {
                let cards: Vec<u8> = j.get("cards").and_then(|x| x.as_arr()).ok_or("BuildFold: missing cards")?.iter().filter_map(|x| x.as_u64()).map(|x| x as u8).collect();
                Ok(Op::BuildFold { dst: u8f("dst")?, cards })
            }
            "FoldIn" => {
                let b = if let Some(r) = j.get("b_reg") {
                    Src::Reg(r.as_u64().ok_or("FoldIn: bad b_reg")? as u8)
                } else {
                    Src::Raw(u64f("b_raw")?)
                };
                Ok(Op::FoldIn { dst: u8f("dst")?, a: u8f("a")?, b })
            }
            "Has" => Ok(Op::Has { r: u8f("r")?, q: u64f("q")? }),
            "Count" => Ok(Op::Count { r: u8f("r")? }),
            "Single" => Ok(Op::Single { r: u8f("r")? }),
            "Valid" => Ok(Op::Valid { r: u8f("r")? }),
            "Peel" => Ok(Op::Peel { r: u8f("r")? }),
            "Drain" => Ok(Op::Drain { r: u8f("r")? }),
            "HandNew" => {
                let arr = j.get("slots").and_then(|x| x.as_arr()).ok_or("HandNew: missing slots")?;
                let mut slots = [BLANK_SLOT; 7];
                for (k, x) in arr.iter().take(7).enumerate() {
                    slots[k] = x.as_u64().ok_or("HandNew: bad slot")? as u8;
                }
                Ok(Op::HandNew { h: u8f("h")?, n: u8f("n")?, slots })
            }
            "HandSet" => Ok(Op::HandSet { h: u8f("h")?, k: u8f("slot_index")?, slot: u8f("card")? }),
            "FromHand" => Ok(Op::FromHand { dst: u8f("dst")?, h: u8f("h")? }),
            "Env" => Ok(Op::Env { r: u8f("r")?, which: u8f("which")? }),
            other => Err(format!("unknown op {}", other)),
        }
    }

    fn simplify(op: &Op) -> Vec<Op> {
        let mut out = Vec::new();
        // drop one set bit at a time, lowest first
        let fewer_bits = |v: u64| -> Vec<u64> {
            let mut c = Vec::new();
            if v.count_ones() > 1 {
                let mut x = v;
                while x != 0 {
                    let b = x & x.wrapping_neg();
                    c.push(v & !b);
                    x &= !b;
                }
            }
            c
        };
        match op {
            Op::BuildHand { dst, n, slots, via_setters, order } => {
                if *via_setters {
                    out.push(Op::BuildHand { dst: *dst, n: *n, slots: *slots, via_setters: false, order: 0 });
                }
                for k in 0..(*n as usize).clamp(2, 7) {
                    if slots[k] != BLANK_SLOT {
                        let mut s = *slots;
                        s[k] = BLANK_SLOT;
                        out.push(Op::BuildHand { dst: *dst, n: *n, slots: s, via_setters: *via_setters, order: *order });
                    }
                }
            }
            Op::BuildText { dst, tokens, seps, lead, trail } => {
                for i in 0..tokens.len() {
                    let mut t = tokens.clone();
                    t.remove(i);
                    let mut s = seps.clone();
                    if i < s.len() {
                        s.remove(i);
                    } else if !s.is_empty() {
                        s.pop();
                    }
                    out.push(Op::BuildText { dst: *dst, tokens: t, seps: s, lead: *lead, trail: *trail });
                }
                if seps.iter().any(|s| *s != 0) {
                    out.push(Op::BuildText { dst: *dst, tokens: tokens.clone(), seps: vec![0; seps.len()], lead: *lead, trail: *trail });
                    for i in 0..seps.len() {
                        if seps[i] != 0 {
                            let mut s2 = seps.clone();
                            s2[i] = 0;
                            out.push(Op::BuildText { dst: *dst, tokens: tokens.clone(), seps: s2, lead: *lead, trail: *trail });
                        }
                    }
                }
                if *lead > 0 || *trail > 0 {
                    out.push(Op::BuildText { dst: *dst, tokens: tokens.clone(), seps: seps.clone(), lead: 0, trail: 0 });
                }
                for (i, t) in tokens.iter().enumerate() {
                    if let Tok::Card { idx, spell, tail } = t {
                        if *spell != 0 || *tail != 0 {
                            let mut t2 = tokens.clone();
                            t2[i] = Tok::Card { idx: *idx, spell: 0, tail: 0 };
                            out.push(Op::BuildText { dst: *dst, tokens: t2, seps: seps.clone(), lead: *lead, trail: *trail });
                        }
                    }
                }
            }
            Op::BuildRaw { dst, bits } => {
                if *bits & !CARD_MASK != 0 && *bits & CARD_MASK != 0 {
                    out.push(Op::BuildRaw { dst: *dst, bits: *bits & CARD_MASK });
                }
                for v in fewer_bits(*bits) {
                    out.push(Op::BuildRaw { dst: *dst, bits: v });
                }
            }
            Op::BuildFold { dst, cards } => {
                for i in 0..cards.len() {
                    let mut c = cards.clone();
                    c.remove(i);
                    out.push(Op::BuildFold { dst: *dst, cards: c });
                }
            }
            Op::FoldIn { dst, a, b } => {
                if let Src::Raw(x) = b {
                    for v in fewer_bits(*x) {
                        out.push(Op::FoldIn { dst: *dst, a: *a, b: Src::Raw(v) });
                    }
                }
            }
            Op::Has { r, q } => {
                for v in fewer_bits(*q) {
                    out.push(Op::Has { r: *r, q: v });
                }
            }
            Op::Drain { r } => out.push(Op::Peel { r: *r }),
            Op::HandNew { h, n, slots } => {
                for k in 0..(*n as usize).clamp(2, 7) {
                    if slots[k] != BLANK_SLOT {
                        let mut s2 = *slots;
                        s2[k] = BLANK_SLOT;
                        out.push(Op::HandNew { h: *h, n: *n, slots: s2 });
                    }
                }
            }
            _ => {}
        }
        out
    }

    fn describe() -> J {
        J::obj()
            .with(
                "components_real",
                J::Arr(
                    [
                        "BinaryCard::from_two .. from_seven (and through them from_ckc and the containers' accessors)",
                        "containers handed to from_N built by From<[u32; N]>, by Default + setter calls in varied order, and kept alive in hand registers that receive further setter calls between conversions",
                        "BinaryCard::from_index (and through it CKCNumber::from_index, the rank/suit character parsers, PokerCard::create/filter)",
                        "BC64::fold_in, has, number_of_cards, is_single_card, is_valid, peel (and through it BinaryCard::DECK)",
                    ]
                    .iter()
                    .map(|s| J::str(s))
                    .collect(),
                ),
            )
            .with("components_stub", J::Arr(vec![]))
            .with("reference_model", J::str("[bool; 64] membership per register with plain loops; card words and bit positions computed from the documented layout and deck order, never from the crate's constants or DECK table"))
            .with(
                "invariants",
                J::Arr(
                    [
                        "S1 after every step every register equals its model on all 64 bit positions (fold_in is union of everything both operands hold)",
                        "S2 has = subset test on all 64 positions, number_of_cards = member count, is_single_card = exactly one, is_valid = non-empty and nothing above bit 51",
                        "S3 peel returns the card that comes first in deck order and removes exactly it (bits above 51 untouched); with no card bits it returns blank and changes nothing",
                        "S4 drain lists exactly the members, in deck order, then blank twice without change; cut off at 65 peels",
                        "frame: registers not named by the operation are unchanged",
                    ]
                    .iter()
                    .map(|s| J::str(s))
                    .collect(),
                ),
            )
            .with(
                "not_demanded",
                J::Arr(
                    ["number_of_cards / is_single_card on values with bits above 51 (either reading accepted)", "non-card words in hands", "which character sequences parse as cards beyond: a listed two-character spelling, optionally followed by a tail (C12: a token is a card iff it starts with rank+suit symbols)"].iter().map(|s| J::str(s)).collect(),
                ),
            )
    }
}
