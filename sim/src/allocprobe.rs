//! Informational only (DESIGN §1, §3.11): counts heap allocations that happen
//! while the thread is inside calls into ckc-rs. The census says there is no
//! allocation to fail; this measures it on the current tree instead of
//! assuming it. Never turns into a violation.

use crate::cardsref::{card_bit, card_word, spelling};
use crate::rng::Rng;
use ckc_rs::cards::binary_card::{BinaryCard, BC64};
use ckc_rs::cards::five::Five;
use ckc_rs::cards::seven::Seven;
use ckc_rs::cards::six::Six;
use ckc_rs::cards::three::Three;
use ckc_rs::cards::two::Two;
use ckc_rs::cards::{HandValidator, Permutator};
use std::alloc::{GlobalAlloc, Layout, System};
use std::sync::atomic::{AtomicBool, AtomicU64, Ordering};

pub struct Counting;

static ENABLED: AtomicBool = AtomicBool::new(false);
static COUNT: AtomicU64 = AtomicU64::new(0);

unsafe impl GlobalAlloc for Counting {
    unsafe fn alloc(&self, l: Layout) -> *mut u8 {
        if ENABLED.load(Ordering::Relaxed) {
            COUNT.fetch_add(1, Ordering::Relaxed);
        }
        System.alloc(l)
    }
    unsafe fn dealloc(&self, p: *mut u8, l: Layout) {
        System.dealloc(p, l)
    }
    unsafe fn realloc(&self, p: *mut u8, l: Layout, n: usize) -> *mut u8 {
        if ENABLED.load(Ordering::Relaxed) {
            COUNT.fetch_add(1, Ordering::Relaxed);
        }
        System.realloc(p, l, n)
    }
}

/// Run on one thread before any worker exists. Returns (crate calls made, allocations seen).
pub fn measure(seed: u64, rounds: usize) -> (u64, u64) {
    let mut rng = Rng::from_seed(seed ^ 0xA110C);
    let mut calls = 0u64;
    let mut sink = 0u64;
    // inputs are prepared with counting off
    let texts: Vec<String> = (0..64)
        .map(|_| {
            let n = rng.usize_below(9);
            (0..n).map(|_| spelling(rng.usize_below(52), rng.usize_below(12))).collect::<Vec<_>>().join(" ")
        })
        .collect();
    COUNT.store(0, Ordering::SeqCst);
    for round in 0..rounds {
        let w: Vec<u32> = (0..7).map(|_| card_word(rng.usize_below(52))).collect();
        let text = &texts[round % texts.len()];
        let idx = [rng.below(6) as u8, rng.below(6) as u8, rng.below(6) as u8, rng.below(6) as u8, rng.below(6) as u8];
        let raw = rng.next_u64() & ((1 << 52) - 1);
        ENABLED.store(true, Ordering::SeqCst);
        let mut two = Two::new(w[0], w[1]);
        two.set_second(w[2]);
        let mut three = Three::from([w[2], w[3], w[4]]);
        three.set_first(w[5]);
        let mut five = Five::from([w[0], w[1], w[2], w[3], w[4]]);
        five.set_fifth(w[6]);
        let six = Six::from_1_and_2_and_3(w[6], two, three);
        let seven = Seven::new(two, five);
        let sel = six.five_from_permutation(idx);
        for x in seven.iter() {
            sink = sink.wrapping_add(*x as u64);
        }
        sink = sink.wrapping_add(sel.to_arr()[0] as u64 + six.sixth() as u64 + seven.seventh() as u64);
        let mut s = BinaryCard::from_seven(seven).fold_in(BinaryCard::from_index(text)).fold_in(raw);
        sink = sink.wrapping_add(s.number_of_cards() as u64 + s.has(card_bit(3)) as u64 + s.is_valid() as u64 + s.is_single_card() as u64);
        for _ in 0..4 {
            sink = sink.wrapping_add(s.peel());
        }
        ENABLED.store(false, Ordering::SeqCst);
        calls += 30;
    }
    std::hint::black_box(sink);
    (calls, COUNT.load(Ordering::SeqCst))
}
