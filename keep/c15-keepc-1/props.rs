//! C15 under concurrency: several threads hammer the bit-set operations (with the emphasis on
//! `number_of_cards`, `is_single_card` and `is_valid`, which change 1 routes through a lazily
//! published process-wide table). Every thread owns its inputs and checks every result against
//! a plain model. Public API only; passes on the pristine tree and with the change.

use ckc_rs::cards::binary_card::{BinaryCard, BC64};
use ckc_rs::cards::five::Five;
use ckc_rs::cards::four::Four;
use ckc_rs::cards::seven::Seven;
use ckc_rs::cards::six::Six;
use ckc_rs::cards::three::Three;
use ckc_rs::cards::two::Two;
use ckc_rs::deck::Deck;
use std::sync::{Arc, Barrier};
use std::thread;

const THREADS: usize = 8;
const ROUNDS: usize = 20_000;
const CARD_BITS: u64 = (1u64 << 52) - 1;

struct Rng(u64);

impl Rng {
    fn next(&mut self) -> u64 {
        // xorshift64*
        self.0 ^= self.0 >> 12;
        self.0 ^= self.0 << 25;
        self.0 ^= self.0 >> 27;
        self.0.wrapping_mul(0x2545_F491_4F6C_DD1D)
    }

    fn below(&mut self, n: u64) -> u64 {
        self.next() % n
    }
}

// ---- model -------------------------------------------------------------------------------

/// Deck position `i` (ace of spades = 0 .. deuce of clubs = 51) owns bit `51 - i`.
fn model_bit_of_word(word: u32) -> u64 {
    for i in 0..52usize {
        if Deck::get(i) == word {
            return 1u64 << (51 - i);
        }
    }
    0
}

fn model_set_of(words: &[u32]) -> u64 {
    words.iter().fold(0u64, |acc, w| acc | model_bit_of_word(*w))
}

fn model_count(mut x: u64) -> u32 {
    let mut n = 0;
    while x != 0 {
        n += (x & 1) as u32;
        x >>= 1;
    }
    n
}

fn model_valid(x: u64) -> bool {
    x != 0 && (x >> 52) == 0
}

/// Highest member in deck order is the highest set bit among the 52 card bits.
fn model_peel(x: &mut u64) -> u64 {
    for bit in (0..52).rev() {
        let m = 1u64 << bit;
        if *x & m != 0 {
            *x &= !m;
            return m;
        }
    }
    0
}

fn token_of(deck_pos: usize) -> String {
    let ranks = ['A', 'K', 'Q', 'J', 'T', '9', '8', '7', '6', '5', '4', '3', '2'];
    let suits = ['S', 'H', 'D', 'C'];
    format!("{}{}", ranks[deck_pos % 13], suits[deck_pos / 13])
}

// ---- generators ----------------------------------------------------------------------------

/// A slot word: mostly real cards, sometimes blank, sometimes garbage that is no card at all.
fn gen_word(rng: &mut Rng) -> u32 {
    match rng.below(10) {
        0 => 0,
        1 => {
            let w = rng.next() as u32;
            if model_bit_of_word(w) == 0 {
                w
            } else {
                0
            }
        }
        _ => Deck::get(rng.below(52) as usize),
    }
}

fn gen_set(rng: &mut Rng) -> u64 {
    match rng.below(12) {
        0 => 0,
        1 => CARD_BITS,
        2 => 1u64 << rng.below(52),
        3 => 1u64 << (52 + rng.below(12)),
        4 => (1u64 << rng.below(52)) | (1u64 << (52 + rng.below(12))),
        5 => BinaryCard::OVERFLOW,
        6 => rng.next() & rng.next() & rng.next() & CARD_BITS,
        7 => rng.next() & CARD_BITS,
        8 => u64::MAX,
        9 => 1u64 << (51 + rng.below(2)), // the validity boundary
        _ => rng.next(),
    }
}

// ---- checks --------------------------------------------------------------------------------

fn check_set_ops(x: u64, y: u64) {
    let n = model_count(x);
    assert_eq!(x.number_of_cards(), n, "number_of_cards({x:#x})");
    assert_eq!(x.is_single_card(), n == 1, "is_single_card({x:#x})");
    assert_eq!(x.is_valid(), model_valid(x), "is_valid({x:#x})");
    assert_eq!(x.fold_in(y), x | y, "fold_in({x:#x}, {y:#x})");
    assert_eq!(x.has(y), x & y == y, "has({x:#x}, {y:#x})");
    assert_eq!(x.fold_in(y).number_of_cards(), model_count(x | y));
    assert_eq!(x.as_u64(), x);
}

fn check_peel(x: u64) {
    let mut real = x;
    let mut model = x;
    let mut last = u64::MAX;
    loop {
        let before = real.number_of_cards();
        let got = real.peel();
        let want = model_peel(&mut model);
        assert_eq!(got, want, "peel of {x:#x}");
        assert_eq!(real, model, "remainder after peel of {x:#x}");
        if got == 0 {
            break;
        }
        assert!(got < last, "deck order");
        assert!(got.is_single_card());
        assert_eq!(real.number_of_cards() + 1, before);
        last = got;
    }
    // exhausted: blank again and again, set unchanged
    for _ in 0..3 {
        let keep = real;
        assert_eq!(real.peel(), 0);
        assert_eq!(real, keep);
        assert_eq!(real & CARD_BITS, 0);
    }
}

fn check_hands(rng: &mut Rng) {
    let w: Vec<u32> = (0..7).map(|_| gen_word(rng)).collect();

    let sets = [
        (BinaryCard::from_two(Two::new(w[0], w[1])), model_set_of(&w[..2])),
        (BinaryCard::from_three(Three::from([w[0], w[1], w[2]])), model_set_of(&w[..3])),
        (BinaryCard::from_four(Four::from([w[0], w[1], w[2], w[3]])), model_set_of(&w[..4])),
        (BinaryCard::from_five(Five::new(w[0], w[1], w[2], w[3], w[4])), model_set_of(&w[..5])),
        (
            BinaryCard::from_six(Six::from([w[0], w[1], w[2], w[3], w[4], w[5]])),
            model_set_of(&w[..6]),
        ),
        (
            BinaryCard::from_seven(Seven::from([w[0], w[1], w[2], w[3], w[4], w[5], w[6]])),
            model_set_of(&w[..7]),
        ),
    ];
    for (i, (got, want)) in sets.iter().enumerate() {
        assert_eq!(got, want, "from_{} of {:?}", i + 2, w);
        assert_eq!(got.number_of_cards(), model_count(*want));
        assert_eq!(got.is_valid(), *want != 0);
        // distinct real cards among the slots
        let mut distinct: Vec<u32> = w[..i + 2].iter().copied().filter(|c| model_bit_of_word(*c) != 0).collect();
        distinct.sort_unstable();
        distinct.dedup();
        assert_eq!(got.number_of_cards() as usize, distinct.len());
        for c in &distinct {
            assert!(got.has(model_bit_of_word(*c)));
        }
    }
}

fn check_text(rng: &mut Rng) {
    let n = rng.below(9) as usize;
    let mut text = String::new();
    let mut want = 0u64;
    for _ in 0..n {
        if rng.below(8) == 0 {
            text.push_str("  XX ");
        } else {
            let pos = rng.below(52) as usize;
            text.push_str(&token_of(pos));
            text.push(' ');
            want |= 1u64 << (51 - pos);
        }
    }
    let got = BinaryCard::from_index(&text);
    assert_eq!(got, want, "from_index({text:?})");
    assert_eq!(got.number_of_cards(), model_count(want));
    assert_eq!(got.is_valid(), want != 0);
}

fn worker(id: usize) {
    let mut rng = Rng(0x9E37_79B9_7F4A_7C15 ^ ((id as u64 + 1) << 32) ^ 0xC15);
    for round in 0..ROUNDS {
        let x = gen_set(&mut rng);
        let y = gen_set(&mut rng);
        check_set_ops(x, y);
        if round % 8 == 0 {
            check_peel(x);
        }
        if round % 4 == 0 {
            check_hands(&mut rng);
        }
        if round % 16 == 0 {
            check_text(&mut rng);
        }
    }
}

#[test]
fn c15_sets_behave_as_sets_on_every_thread() {
    let barrier = Arc::new(Barrier::new(THREADS));
    let handles: Vec<_> = (0..THREADS)
        .map(|id| {
            let barrier = Arc::clone(&barrier);
            thread::spawn(move || {
                // release all threads together so the very first calls race each other
                barrier.wait();
                worker(id);
            })
        })
        .collect();
    for h in handles {
        h.join().expect("worker panicked");
    }
}

/// Structured sets, exhaustively, from several threads at once (each thread walks the same
/// list in a different rotation, so the same inputs are in flight simultaneously).
#[test]
fn c15_structured_sets_on_every_thread() {
    let mut sets: Vec<u64> = vec![0, CARD_BITS, u64::MAX, BinaryCard::OVERFLOW, BinaryCard::ALL];
    for b in 0..64 {
        sets.push(1u64 << b);
        sets.push(CARD_BITS & !(1u64 << b));
        sets.push((1u64 << b) | 1);
    }
    for r in 0..13 {
        // rank groups: one bit per suit, 13 apart
        let g = (1u64 << r) | (1u64 << (r + 13)) | (1u64 << (r + 26)) | (1u64 << (r + 39));
        sets.push(g);
    }
    for v in 0..=255u64 {
        // every byte value in every byte lane
        for lane in 0..8 {
            sets.push(v << (8 * lane));
        }
    }
    let sets = Arc::new(sets);
    let barrier = Arc::new(Barrier::new(THREADS));
    let handles: Vec<_> = (0..THREADS)
        .map(|id| {
            let sets = Arc::clone(&sets);
            let barrier = Arc::clone(&barrier);
            thread::spawn(move || {
                barrier.wait();
                let n = sets.len();
                for k in 0..n {
                    let x = sets[(k + id * 97) % n];
                    let y = sets[(k * 31 + id) % n];
                    check_set_ops(x, y);
                    check_peel(x);
                }
            })
        })
        .collect();
    for h in handles {
        h.join().expect("worker panicked");
    }
}
