//! Spot checks for property C19: "Hand containers store and return exactly
//! the words put into them".  Public API only.  Drop in as tests/props.rs.

use ckc_rs::cards::five::Five;
use ckc_rs::cards::four::Four;
use ckc_rs::cards::seven::Seven;
use ckc_rs::cards::six::Six;
use ckc_rs::cards::three::Three;
use ckc_rs::cards::two::Two;
use ckc_rs::cards::{HandValidator, Permutator};
use ckc_rs::CKCNumber;

/// xorshift64*, fixed seed: the runs are reproducible.
struct Rng(u64);

impl Rng {
    fn next_u64(&mut self) -> u64 {
        let mut x = self.0;
        x ^= x >> 12;
        x ^= x << 25;
        x ^= x >> 27;
        self.0 = x;
        x.wrapping_mul(0x2545_F491_4F6C_DD1D)
    }

    /// Arbitrary u32 words, with the awkward ones over-represented.
    fn word(&mut self) -> CKCNumber {
        const SPECIAL: [u32; 10] = [
            0,
            1,
            2,
            u32::MAX,
            u32::MAX - 1,
            0x8000_0000,
            0x7FFF_FFFF,
            268_471_337, // ace of spades
            98_306,      // deuce of clubs
            0x2000_0000, // PAIR flag alone
        ];
        let r = self.next_u64();
        if r % 4 == 0 {
            SPECIAL[((r >> 8) % SPECIAL.len() as u64) as usize]
        } else {
            (r >> 32) as u32
        }
    }

    fn below(&mut self, n: usize) -> usize {
        (self.next_u64() % n as u64) as usize
    }

    fn words<const N: usize>(&mut self) -> [CKCNumber; N] {
        let mut a = [0u32; N];
        for w in a.iter_mut() {
            *w = self.word();
        }
        a
    }
}

type Get<T> = fn(&T) -> CKCNumber;
type Set<T> = fn(&mut T, CKCNumber);

fn get2() -> [Get<Two>; 2] {
    [|h| h.first(), |h| h.second()]
}
fn set2() -> [Set<Two>; 2] {
    [Two::set_first, Two::set_second]
}
fn get3() -> [Get<Three>; 3] {
    [|h| h.first(), |h| h.second(), |h| h.third()]
}
fn set3() -> [Set<Three>; 3] {
    [Three::set_first, Three::set_second, Three::set_third]
}
fn get4() -> [Get<Four>; 4] {
    [|h| h.first(), |h| h.second(), |h| h.third(), |h| h.forth()]
}
fn set4() -> [Set<Four>; 4] {
    [Four::set_first, Four::set_second, Four::set_third, Four::set_forth]
}
fn get5() -> [Get<Five>; 5] {
    [|h| h.first(), |h| h.second(), |h| h.third(), |h| h.forth(), |h| h.fifth()]
}
fn set5() -> [Set<Five>; 5] {
    [
        Five::set_first,
        Five::set_second,
        Five::set_third,
        Five::set_forth,
        Five::set_fifth,
    ]
}
fn get6() -> [Get<Six>; 6] {
    [
        |h| h.first(),
        |h| h.second(),
        |h| h.third(),
        |h| h.forth(),
        |h| h.fifth(),
        |h| h.sixth(),
    ]
}
fn set6() -> [Set<Six>; 6] {
    [
        Six::set_first,
        Six::set_second,
        Six::set_third,
        Six::set_forth,
        Six::set_fifth,
        Six::set_sixth,
    ]
}
fn get7() -> [Get<Seven>; 7] {
    [
        |h| h.first(),
        |h| h.second(),
        |h| h.third(),
        |h| h.forth(),
        |h| h.fifth(),
        |h| h.sixth(),
        |h| h.seventh(),
    ]
}
fn set7() -> [Set<Seven>; 7] {
    [
        Seven::set_first,
        Seven::set_second,
        Seven::set_third,
        Seven::set_forth,
        Seven::set_fifth,
        Seven::set_sixth,
        Seven::set_seventh,
    ]
}

/// Every way of reading back must agree with the model array.
fn agree<T, const N: usize>(
    what: &str,
    hand: &T,
    model: &[CKCNumber; N],
    getters: &[Get<T>; N],
    to_arr: fn(&T) -> [CKCNumber; N],
) where
    T: HandValidator,
{
    for (i, g) in getters.iter().enumerate() {
        assert_eq!(g(hand), model[i], "{what}: accessor of slot {i}");
    }
    assert_eq!(to_arr(hand), *model, "{what}: to_arr");
    let mut n = 0usize;
    for (i, w) in hand.iter().enumerate() {
        assert_eq!(*w, model[i], "{what}: iter at {i}");
        n += 1;
    }
    assert_eq!(n, N, "{what}: iter length");
    assert_eq!(hand.iter().len(), N, "{what}: iter exact size");
    let mut back = hand.iter().rev();
    for i in (0..N).rev() {
        assert_eq!(back.next().copied(), Some(model[i]), "{what}: reverse iter at {i}");
    }
}

/// Seeded history of from-array constructions and setter calls against a model.
fn history<T, const N: usize>(
    name: &str,
    seed: u64,
    getters: [Get<T>; N],
    setters: [Set<T>; N],
    to_arr: fn(&T) -> [CKCNumber; N],
) where
    T: HandValidator + From<[CKCNumber; N]> + Copy,
{
    let mut rng = Rng(seed);
    for round in 0..60 {
        let mut model: [CKCNumber; N] = rng.words();
        let mut hand = T::from(model);
        agree(&format!("{name} round {round} fresh"), &hand, &model, &getters, to_arr);
        for step in 0..80 {
            match rng.below(10) {
                0 => {
                    model = rng.words();
                    hand = T::from(model);
                }
                1 => {
                    // a copy must carry the same words and be independent
                    let snapshot = hand;
                    let slot = rng.below(N);
                    let w = rng.word();
                    setters[slot](&mut hand, w);
                    model[slot] = w;
                    let mut old = model;
                    old[slot] = to_arr(&snapshot)[slot];
                    agree(&format!("{name} snapshot"), &snapshot, &old, &getters, to_arr);
                }
                _ => {
                    let slot = rng.below(N);
                    let w = rng.word();
                    setters[slot](&mut hand, w);
                    model[slot] = w;
                }
            }
            agree(
                &format!("{name} round {round} step {step}"),
                &hand,
                &model,
                &getters,
                to_arr,
            );
        }
    }
}

/// Every slot as the written slot: only that slot changes.
fn each_slot<T, const N: usize>(
    name: &str,
    getters: [Get<T>; N],
    setters: [Set<T>; N],
    to_arr: fn(&T) -> [CKCNumber; N],
) where
    T: HandValidator + From<[CKCNumber; N]> + Copy,
{
    let backgrounds: [[CKCNumber; N]; 3] = [
        [0u32; N],
        [u32::MAX; N],
        core::array::from_fn(|i| 0x0101_0101u32.wrapping_mul(i as u32 + 1)),
    ];
    for bg in backgrounds {
        for slot in 0..N {
            for w in [0u32, 1, 0xDEAD_BEEF, u32::MAX, 0x8000_0000, 268_471_337] {
                let mut hand = T::from(bg);
                setters[slot](&mut hand, w);
                let mut model = bg;
                model[slot] = w;
                agree(&format!("{name} slot {slot} word {w:#x}"), &hand, &model, &getters, to_arr);
                // writing the same slot twice keeps the last word
                setters[slot](&mut hand, !w);
                model[slot] = !w;
                agree(&format!("{name} slot {slot} rewrite"), &hand, &model, &getters, to_arr);
            }
        }
    }
}

#[test]
fn histories_two() {
    history("Two", 0x2222_0001, get2(), set2(), Two::to_arr);
    each_slot("Two", get2(), set2(), Two::to_arr);
}

#[test]
fn histories_three() {
    history("Three", 0x3333_0001, get3(), set3(), Three::to_arr);
    each_slot("Three", get3(), set3(), Three::to_arr);
}

#[test]
fn histories_four() {
    history("Four", 0x4444_0001, get4(), set4(), Four::to_arr);
    each_slot("Four", get4(), set4(), Four::to_arr);
}

#[test]
fn histories_five() {
    history("Five", 0x5555_0001, get5(), set5(), Five::to_arr);
    each_slot("Five", get5(), set5(), Five::to_arr);
}

#[test]
fn histories_six() {
    history("Six", 0x6666_0001, get6(), set6(), Six::to_arr);
    each_slot("Six", get6(), set6(), Six::to_arr);
}

#[test]
fn histories_seven() {
    history("Seven", 0x7777_0001, get7(), set7(), Seven::to_arr);
    each_slot("Seven", get7(), set7(), Seven::to_arr);
}

#[test]
fn slot_constructors_and_parts() {
    let mut rng = Rng(0xC0FF_EE00_1234_5678);
    for _ in 0..2000 {
        let a: [CKCNumber; 2] = rng.words();
        let two = Two::new(a[0], a[1]);
        agree("Two::new", &two, &a, &get2(), Two::to_arr);
        agree("Two::from(&arr)", &Two::from(&a), &a, &get2(), Two::to_arr);
        agree("Two::from(arr)", &Two::from(a), &a, &get2(), Two::to_arr);

        let t: [CKCNumber; 3] = rng.words();
        let three = Three::from(t);
        agree("Three::from", &three, &t, &get3(), Three::to_arr);

        let f: [CKCNumber; 5] = rng.words();
        let five = Five::new(f[0], f[1], f[2], f[3], f[4]);
        agree("Five::new", &five, &f, &get5(), Five::to_arr);

        let one = rng.word();
        let six = Six::from_1_and_2_and_3(one, two, three);
        let expect6 = [one, a[0], a[1], t[0], t[1], t[2]];
        agree("Six::from_1_and_2_and_3", &six, &expect6, &get6(), Six::to_arr);

        let seven = Seven::new(two, five);
        let expect7 = [a[0], a[1], f[0], f[1], f[2], f[3], f[4]];
        agree("Seven::new", &seven, &expect7, &get7(), Seven::to_arr);

        // parts that were themselves edited by setters
        let mut two_b = two;
        two_b.set_second(one);
        let mut five_b = five;
        five_b.set_third(a[0]);
        let mut three_b = three;
        three_b.set_first(f[4]);
        let seven_b = Seven::new(two_b, five_b);
        agree(
            "Seven::new after setters",
            &seven_b,
            &[a[0], one, f[0], f[1], a[0], f[3], f[4]],
            &get7(),
            Seven::to_arr,
        );
        let six_b = Six::from_1_and_2_and_3(f[0], two_b, three_b);
        agree(
            "Six parts after setters",
            &six_b,
            &[f[0], a[0], one, f[4], t[1], t[2]],
            &get6(),
            Six::to_arr,
        );
    }
}

#[test]
fn parts_with_blank_and_equal_words() {
    // blank and repeated words are words like any other
    let two = Two::new(0, 0);
    let five = Five::new(7, 7, 0, 7, 0);
    agree("Seven blanks", &Seven::new(two, five), &[0, 0, 7, 7, 0, 7, 0], &get7(), Seven::to_arr);
    let three = Three::from([9, 0, 9]);
    agree(
        "Six blanks",
        &Six::from_1_and_2_and_3(0, Two::new(5, 5), three),
        &[0, 5, 5, 9, 0, 9],
        &get6(),
        Six::to_arr,
    );
}

fn all_tuples(n: u8, mut f: impl FnMut([u8; 5])) {
    for a in 0..n {
        for b in 0..n {
            for c in 0..n {
                for d in 0..n {
                    for e in 0..n {
                        f([a, b, c, d, e]);
                    }
                }
            }
        }
    }
}

#[test]
fn selection_six_all_index_tuples() {
    let sources: [[CKCNumber; 6]; 3] = [
        [0xA000_0001, 0xB000_0002, 0xC000_0003, 0xD000_0004, 0xE000_0005, 0xF000_0006],
        [0, u32::MAX, 0, 1, u32::MAX, 268_471_337], // blanks and repeats
        [6, 5, 4, 3, 2, 1],
    ];
    for src in sources {
        let six = Six::from(src);
        let mut count = 0u32;
        all_tuples(6, |p| {
            let five = six.five_from_permutation(p);
            let expect = [
                src[p[0] as usize],
                src[p[1] as usize],
                src[p[2] as usize],
                src[p[3] as usize],
                src[p[4] as usize],
            ];
            assert_eq!(five.to_arr(), expect, "Six select {p:?}");
            assert_eq!(five.first(), expect[0]);
            assert_eq!(five.fifth(), expect[4]);
            count += 1;
        });
        assert_eq!(count, 7776);
        // the source is not disturbed by selecting
        assert_eq!(six.to_arr(), src);
    }
}

#[test]
fn selection_seven_all_index_tuples() {
    let sources: [[CKCNumber; 7]; 3] = [
        [
            0xA000_0001,
            0xB000_0002,
            0xC000_0003,
            0xD000_0004,
            0xE000_0005,
            0xF000_0006,
            0x1000_0007,
        ],
        [0, u32::MAX, 0, 1, u32::MAX, 268_471_337, 0],
        [7, 6, 5, 4, 3, 2, 1],
    ];
    for src in sources {
        let seven = Seven::from(src);
        let mut count = 0u32;
        all_tuples(7, |p| {
            let five = seven.five_from_permutation(p);
            let expect = [
                src[p[0] as usize],
                src[p[1] as usize],
                src[p[2] as usize],
                src[p[3] as usize],
                src[p[4] as usize],
            ];
            assert_eq!(five.to_arr(), expect, "Seven select {p:?}");
            assert_eq!(five.second(), expect[1]);
            assert_eq!(five.forth(), expect[3]);
            count += 1;
        });
        assert_eq!(count, 16807);
        assert_eq!(seven.to_arr(), src);
    }
}

#[test]
fn selection_after_setters() {
    let mut rng = Rng(0x5E1E_C700_0000_0001);
    for _ in 0..300 {
        let mut model: [CKCNumber; 7] = rng.words();
        let mut seven = Seven::from(model);
        let setters = set7();
        for _ in 0..5 {
            let s = rng.below(7);
            let w = rng.word();
            setters[s](&mut seven, w);
            model[s] = w;
        }
        let p: [u8; 5] = core::array::from_fn(|_| rng.below(7) as u8);
        let got = seven.five_from_permutation(p).to_arr();
        let expect: [CKCNumber; 5] = core::array::from_fn(|i| model[p[i] as usize]);
        assert_eq!(got, expect);

        let mut model6: [CKCNumber; 6] = rng.words();
        let mut six = Six::from(model6);
        let setters6 = set6();
        for _ in 0..5 {
            let s = rng.below(6);
            let w = rng.word();
            setters6[s](&mut six, w);
            model6[s] = w;
        }
        let p: [u8; 5] = core::array::from_fn(|_| rng.below(6) as u8);
        let got = six.five_from_permutation(p).to_arr();
        let expect: [CKCNumber; 5] = core::array::from_fn(|i| model6[p[i] as usize]);
        assert_eq!(got, expect);
    }
}
