//! C19 under concurrency: several threads hammer the hand containers (constructors, every slot
//! setter, every way of reading back, five-slot selection). Every thread owns its containers and
//! compares them, step by step, with a plain array that received the same writes.
//! Public API only; passes on the pristine tree and with the change.

use ckc_rs::cards::five::Five;
use ckc_rs::cards::four::Four;
use ckc_rs::cards::seven::Seven;
use ckc_rs::cards::six::Six;
use ckc_rs::cards::three::Three;
use ckc_rs::cards::two::Two;
use ckc_rs::cards::{HandValidator, Permutator};
use std::sync::{Arc, Barrier};
use std::thread;

const THREADS: usize = 8;
const HISTORIES: usize = 4_000;
const STEPS: usize = 40;

struct Rng(u64);

impl Rng {
    fn next(&mut self) -> u64 {
        // xorshift64*
        self.0 ^= self.0 >> 12;
        self.0 ^= self.0 << 25;
        self.0 ^= self.0 >> 27;
        self.0.wrapping_mul(0x2545_F491_4F6C_DD1D)
    }

    fn below(&mut self, n: u64) -> u64 {
        self.next() % n
    }

    /// Arbitrary word, with the extremes and small values over-represented.
    fn word(&mut self) -> u32 {
        match self.below(8) {
            0 => 0,
            1 => u32::MAX,
            2 => self.below(8) as u32,
            _ => self.next() as u32,
        }
    }
}

/// Reads a container back in every available way and compares with the model array.
macro_rules! read_back {
    ($c:expr, $model:expr, [$($getter:ident),+]) => {{
        let c = &$c;
        let model = &$model;
        let by_accessor = [$(c.$getter()),+];
        assert_eq!(&by_accessor, model, "accessors");
        assert_eq!(&c.to_arr(), model, "to_arr");
        let by_iter: Vec<u32> = c.iter().copied().collect();
        assert_eq!(&by_iter[..], &model[..], "iter");
    }};
}

/// One seeded history on one container type.
macro_rules! history {
    ($rng:expr, $ty:ty, $n:expr, $getters:tt, [$($setter:ident),+]) => {{
        let rng: &mut Rng = $rng;
        let mut model = [0u32; $n];
        for w in model.iter_mut() {
            *w = rng.word();
        }
        let mut c = <$ty>::from(model);
        read_back!(c, model, $getters);
        for _ in 0..STEPS {
            let slot = rng.below($n) as usize;
            let w = rng.word();
            let mut k = 0usize;
            $(
                if k == slot {
                    c.$setter(w);
                }
                k += 1;
            )+
            assert_eq!(k, $n);
            model[slot] = w;
            read_back!(c, model, $getters);
            if rng.below(10) == 0 {
                // rebuild from an array mid-history
                for m in model.iter_mut() {
                    *m = rng.word();
                }
                c = <$ty>::from(model);
                read_back!(c, model, $getters);
            }
        }
        // default container is all zero and takes writes like any other
        let mut d = <$ty>::default();
        let mut dm = [0u32; $n];
        read_back!(d, dm, $getters);
        let mut k = 0usize;
        $(
            let w = rng.word();
            d.$setter(w);
            dm[k] = w;
            read_back!(d, dm, $getters);
            k += 1;
        )+
        assert_eq!(k, $n);
    }};
}

fn composite_constructors(rng: &mut Rng) {
    let w: Vec<u32> = (0..7).map(|_| rng.word()).collect();

    let two = Two::new(w[0], w[1]);
    assert_eq!(two.to_arr(), [w[0], w[1]]);
    let five = Five::new(w[2], w[3], w[4], w[5], w[6]);
    assert_eq!(five.to_arr(), [w[2], w[3], w[4], w[5], w[6]]);

    let seven = Seven::new(two, five);
    let model7 = [w[0], w[1], w[2], w[3], w[4], w[5], w[6]];
    read_back!(seven, model7, [first, second, third, forth, fifth, sixth, seventh]);
    // the parts are copies: unchanged by building the whole
    assert_eq!(two.to_arr(), [w[0], w[1]]);
    assert_eq!(five.to_arr(), [w[2], w[3], w[4], w[5], w[6]]);

    let three = Three::from([w[3], w[4], w[5]]);
    let six = Six::from_1_and_2_and_3(w[6], two, three);
    let model6 = [w[6], w[0], w[1], w[3], w[4], w[5]];
    read_back!(six, model6, [first, second, third, forth, fifth, sixth]);
}

fn selections(rng: &mut Rng) {
    let mut m6 = [0u32; 6];
    let mut m7 = [0u32; 7];
    for w in m6.iter_mut() {
        *w = rng.word();
    }
    for w in m7.iter_mut() {
        *w = rng.word();
    }
    let six = Six::from(m6);
    let seven = Seven::from(m7);
    for _ in 0..16 {
        let p6 = [
            rng.below(6) as u8,
            rng.below(6) as u8,
            rng.below(6) as u8,
            rng.below(6) as u8,
            rng.below(6) as u8,
        ];
        let want6 = [
            m6[p6[0] as usize],
            m6[p6[1] as usize],
            m6[p6[2] as usize],
            m6[p6[3] as usize],
            m6[p6[4] as usize],
        ];
        assert_eq!(six.five_from_permutation(p6).to_arr(), want6);
        let p7 = [
            rng.below(7) as u8,
            rng.below(7) as u8,
            rng.below(7) as u8,
            rng.below(7) as u8,
            rng.below(7) as u8,
        ];
        let want7 = [
            m7[p7[0] as usize],
            m7[p7[1] as usize],
            m7[p7[2] as usize],
            m7[p7[3] as usize],
            m7[p7[4] as usize],
        ];
        assert_eq!(seven.five_from_permutation(p7).to_arr(), want7);
    }
    for p in Six::FIVE_CARD_PERMUTATIONS {
        let got = six.five_from_permutation(p).to_arr();
        for k in 0..5 {
            assert_eq!(got[k], m6[p[k] as usize]);
        }
    }
    for p in Seven::FIVE_CARD_PERMUTATIONS {
        let got = seven.five_from_permutation(p).to_arr();
        for k in 0..5 {
            assert_eq!(got[k], m7[p[k] as usize]);
        }
    }
    assert_eq!(six.to_arr(), m6);
    assert_eq!(seven.to_arr(), m7);
}

fn worker(id: usize) {
    let mut rng = Rng(0x9E37_79B9_7F4A_7C15 ^ ((id as u64 + 1) << 32) ^ 0xC19);
    for _ in 0..HISTORIES {
        history!(&mut rng, Two, 2, [first, second], [set_first, set_second]);
        history!(&mut rng, Three, 3, [first, second, third], [set_first, set_second, set_third]);
        history!(
            &mut rng,
            Four,
            4,
            [first, second, third, forth],
            [set_first, set_second, set_third, set_forth]
        );
        history!(
            &mut rng,
            Five,
            5,
            [first, second, third, forth, fifth],
            [set_first, set_second, set_third, set_forth, set_fifth]
        );
        history!(
            &mut rng,
            Six,
            6,
            [first, second, third, forth, fifth, sixth],
            [set_first, set_second, set_third, set_forth, set_fifth, set_sixth]
        );
        history!(
            &mut rng,
            Seven,
            7,
            [first, second, third, forth, fifth, sixth, seventh],
            [set_first, set_second, set_third, set_forth, set_fifth, set_sixth, set_seventh]
        );
        composite_constructors(&mut rng);
        selections(&mut rng);
    }
}

fn run_on_threads<F: Fn(usize) + Send + Sync + 'static>(f: F) {
    let f = Arc::new(f);
    let barrier = Arc::new(Barrier::new(THREADS));
    let handles: Vec<_> = (0..THREADS)
        .map(|id| {
            let f = Arc::clone(&f);
            let barrier = Arc::clone(&barrier);
            thread::spawn(move || {
                barrier.wait();
                f(id);
            })
        })
        .collect();
    for h in handles {
        h.join().expect("worker panicked");
    }
}

#[test]
fn c19_containers_equal_their_array_model_on_every_thread() {
    run_on_threads(worker);
}

/// Every in-range index tuple (6^5 and 7^5) for five-slot selection; every thread walks the whole
/// space on its own container, starting at a different offset.
#[test]
fn c19_every_selection_tuple_on_every_thread() {
    run_on_threads(|id| {
        let mut rng = Rng(0xA076_1D64_78BD_642F ^ ((id as u64 + 1) << 24));
        let mut m6 = [0u32; 6];
        let mut m7 = [0u32; 7];
        for w in m6.iter_mut() {
            *w = rng.next() as u32;
        }
        for w in m7.iter_mut() {
            *w = rng.next() as u32;
        }
        let six = Six::from(m6);
        let seven = Seven::from(m7);
        let total6 = 6usize.pow(5);
        for t in 0..total6 {
            let mut x = (t + id * 977) % total6;
            let mut p = [0u8; 5];
            for d in p.iter_mut() {
                *d = (x % 6) as u8;
                x /= 6;
            }
            let got = six.five_from_permutation(p).to_arr();
            for k in 0..5 {
                assert_eq!(got[k], m6[p[k] as usize], "six {p:?}");
            }
        }
        let total7 = 7usize.pow(5);
        for t in 0..total7 {
            let mut x = (t + id * 2111) % total7;
            let mut p = [0u8; 5];
            for d in p.iter_mut() {
                *d = (x % 7) as u8;
                x /= 7;
            }
            let got = seven.five_from_permutation(p).to_arr();
            for k in 0..5 {
                assert_eq!(got[k], m7[p[k] as usize], "seven {p:?}");
            }
        }
        assert_eq!(six.to_arr(), m6);
        assert_eq!(seven.to_arr(), m7);
    });
}

/// Every slot of every size as the written slot: writing slot `s` changes slot `s` only.
#[test]
fn c19_every_slot_of_every_size_on_every_thread() {
    run_on_threads(|id| {
        let mut rng = Rng(0xE703_7ED1_A0B4_28DB ^ ((id as u64 + 1) << 16));
        for _ in 0..4_000 {
            macro_rules! each_slot {
                ($ty:ty, $n:expr, [$($setter:ident),+]) => {{
                    let mut base = [0u32; $n];
                    for w in base.iter_mut() {
                        *w = rng.word();
                    }
                    let mut s = 0usize;
                    $(
                        let mut c = <$ty>::from(base);
                        let w = rng.word();
                        c.$setter(w);
                        let mut want = base;
                        want[s] = w;
                        assert_eq!(c.to_arr(), want, concat!(stringify!($ty), "::", stringify!($setter)));
                        s += 1;
                    )+
                    assert_eq!(s, $n);
                }};
            }
            each_slot!(Two, 2, [set_first, set_second]);
            each_slot!(Three, 3, [set_first, set_second, set_third]);
            each_slot!(Four, 4, [set_first, set_second, set_third, set_forth]);
            each_slot!(Five, 5, [set_first, set_second, set_third, set_forth, set_fifth]);
            each_slot!(Six, 6, [set_first, set_second, set_third, set_forth, set_fifth, set_sixth]);
            each_slot!(
                Seven,
                7,
                [set_first, set_second, set_third, set_forth, set_fifth, set_sixth, set_seventh]
            );
        }
    });
}
