//! Property C15: card bit-sets behave as sets (union, subset, count, validity, ordered peel).
//!
//! Public API only.  Everything asserted here is a clause of the statement, evaluated over the
//! statement's quantifier: hands of sizes 2..7 over {52 cards, blank} with repetition, texts made of
//! two-character card / non-card tokens separated by (Unicode) whitespace, seeded samples of the 2^64
//! bit-sets plus structured ones, and every peel sequence to exhaustion.
//!
//! Deliberately NOT asserted (the statement is silent on them): `is_single_card`, `from_ckc` on
//! numbers that are neither a card nor blank, malformed tokens (length != 2), separators other than
//! whitespace, `BinaryCard::DECK`, `Two::try_from(BinaryCard)`.

use ckc_rs::cards::binary_card::{BinaryCard, BC64};
use ckc_rs::cards::five::Five;
use ckc_rs::cards::four::Four;
use ckc_rs::cards::seven::Seven;
use ckc_rs::cards::six::Six;
use ckc_rs::cards::three::Three;
use ckc_rs::cards::two::Two;
use ckc_rs::deck::POKER_DECK;
use ckc_rs::{CKCNumber, CardNumber};

macro_rules! table {
    ($($name:ident),* $(,)?) => {
        [$((CardNumber::$name, <BinaryCard as BC64>::$name)),*]
    };
}

/// (hand-slot number, set bit) for every card, listed in deck order (ace of spades first).
const CARDS: [(CKCNumber, u64); 52] = table!(
    ACE_SPADES, KING_SPADES, QUEEN_SPADES, JACK_SPADES, TEN_SPADES, NINE_SPADES, EIGHT_SPADES,
    SEVEN_SPADES, SIX_SPADES, FIVE_SPADES, FOUR_SPADES, TREY_SPADES, DEUCE_SPADES,
    ACE_HEARTS, KING_HEARTS, QUEEN_HEARTS, JACK_HEARTS, TEN_HEARTS, NINE_HEARTS, EIGHT_HEARTS,
    SEVEN_HEARTS, SIX_HEARTS, FIVE_HEARTS, FOUR_HEARTS, TREY_HEARTS, DEUCE_HEARTS,
    ACE_DIAMONDS, KING_DIAMONDS, QUEEN_DIAMONDS, JACK_DIAMONDS, TEN_DIAMONDS, NINE_DIAMONDS,
    EIGHT_DIAMONDS, SEVEN_DIAMONDS, SIX_DIAMONDS, FIVE_DIAMONDS, FOUR_DIAMONDS, TREY_DIAMONDS,
    DEUCE_DIAMONDS,
    ACE_CLUBS, KING_CLUBS, QUEEN_CLUBS, JACK_CLUBS, TEN_CLUBS, NINE_CLUBS, EIGHT_CLUBS, SEVEN_CLUBS,
    SIX_CLUBS, FIVE_CLUBS, FOUR_CLUBS, TREY_CLUBS, DEUCE_CLUBS,
);

const ALL52: u64 = (1u64 << 52) - 1;

struct Rng(u64);
impl Rng {
    fn next(&mut self) -> u64 {
        self.0 = self.0.wrapping_add(0x9E37_79B9_7F4A_7C15);
        let mut z = self.0;
        z = (z ^ (z >> 30)).wrapping_mul(0xBF58_476D_1CE4_E5B9);
        z = (z ^ (z >> 27)).wrapping_mul(0x94D0_49BB_1331_11EB);
        z ^ (z >> 31)
    }
    fn below(&mut self, n: usize) -> usize {
        (self.next() % n as u64) as usize
    }
}

fn popcount(mut x: u64) -> u32 {
    let mut n = 0;
    while x != 0 {
        n += (x & 1) as u32;
        x >>= 1;
    }
    n
}

/// Clause checks that apply to any bit-set whatsoever.
fn check_set_clauses(s: u64) {
    // count is the number of members
    assert_eq!(s.number_of_cards(), popcount(s), "count of {s:#x}");
    // valid exactly when non-empty with no bits above the 52 card bits
    assert_eq!(s.is_valid(), s != 0 && (s >> 52) == 0, "validity of {s:#x}");
    // membership of every single card
    for (_, bit) in CARDS {
        assert_eq!(s.has(bit), s & bit != 0, "has({bit:#x}) on {s:#x}");
    }
    // a set is a subset of itself, the empty set is a subset of everything
    assert!(s.has(s));
    assert!(s.has(0));
}

/// Peel to exhaustion, checking order, removal, and the terminal behaviour.
fn check_peel(start: u64) {
    let mut s = start;
    let mut model = start;
    for (_, bit) in CARDS {
        if start & bit == 0 {
            continue;
        }
        let before = s;
        let got = s.peel();
        assert_eq!(got, bit, "peel order on {start:#x}");
        model &= !bit;
        assert_eq!(s, model, "peel removed exactly the returned card ({start:#x})");
        assert_eq!(s.number_of_cards() + 1, before.number_of_cards());
        assert!(!s.has(bit));
    }
    assert_eq!(s, start & !ALL52, "only non-card bits remain after exhaustion");
    for _ in 0..3 {
        let before = s;
        assert_eq!(s.peel(), 0, "exhausted set peels blank ({start:#x})");
        assert_eq!(s, before, "exhausted peel leaves the set unchanged ({start:#x})");
    }
}

fn structured_sets() -> Vec<u64> {
    let mut v = vec![
        0,
        ALL52,
        u64::MAX,
        !ALL52,
        <BinaryCard as BC64>::ALL,
        <BinaryCard as BC64>::OVERFLOW,
        <BinaryCard as BC64>::ACES,
        <BinaryCard as BC64>::KINGS,
        <BinaryCard as BC64>::QUEENS,
        <BinaryCard as BC64>::JACKS,
        <BinaryCard as BC64>::TENS,
        <BinaryCard as BC64>::NINES,
        <BinaryCard as BC64>::EIGHTS,
        <BinaryCard as BC64>::SEVENS,
        <BinaryCard as BC64>::SIXES,
        <BinaryCard as BC64>::FIVES,
        <BinaryCard as BC64>::FOURS,
        <BinaryCard as BC64>::TREYS,
        <BinaryCard as BC64>::DEUCES,
        1 << 51,
        1 << 52,
        (1 << 51) | (1 << 52),
        (1 << 52) | 1,
        1 << 63,
        (1 << 63) | 1,
        ALL52 | (1 << 52),
        ALL52 | (1 << 63),
        0x1fff << 39,
        0x1fff << 26,
        0x1fff << 13,
        0x1fff,
        0x5555_5555_5555_5555,
        0xAAAA_AAAA_AAAA_AAAA,
    ];
    for i in 0..64 {
        v.push(1u64 << i);
        v.push(!(1u64 << i));
        v.push(ALL52 & !(1u64 << (i % 52)));
    }
    v
}

fn sample_sets(seed: u64, n: usize) -> Vec<u64> {
    let mut r = Rng(seed);
    let mut v = structured_sets();
    for i in 0..n {
        let x = match i % 6 {
            0 => r.next(),
            1 => r.next() & ALL52,
            2 => r.next() & r.next() & r.next(),           // sparse
            3 => r.next() | r.next() | r.next(),           // dense
            4 => r.next() & r.next() & r.next() & ALL52,   // sparse, cards only
            _ => (r.next() & ALL52) | (1u64 << (52 + r.below(12))), // one overflow bit
        };
        v.push(x);
    }
    v
}

#[test]
fn table_is_the_deck_in_deck_order() {
    let deck = POKER_DECK.arr();
    let mut seen = 0u64;
    for (i, (ckc, bit)) in CARDS.iter().enumerate() {
        assert_eq!(*ckc, deck[i]);
        assert_eq!(popcount(*bit), 1);
        assert_eq!(seen & bit, 0);
        seen |= bit;
    }
    assert_eq!(seen, ALL52);
    assert_eq!(<BinaryCard as BC64>::BLANK, 0);
}

fn build(slots: &[CKCNumber]) -> u64 {
    match slots.len() {
        2 => BinaryCard::from_two(Two::new(slots[0], slots[1])),
        3 => BinaryCard::from_three(Three::from([slots[0], slots[1], slots[2]])),
        4 => BinaryCard::from_four(Four::from([slots[0], slots[1], slots[2], slots[3]])),
        5 => BinaryCard::from_five(Five::from([slots[0], slots[1], slots[2], slots[3], slots[4]])),
        6 => BinaryCard::from_six(Six::from([
            slots[0], slots[1], slots[2], slots[3], slots[4], slots[5],
        ])),
        7 => BinaryCard::from_seven(Seven::from([
            slots[0], slots[1], slots[2], slots[3], slots[4], slots[5], slots[6],
        ])),
        _ => unreachable!(),
    }
}

/// idx 52 means blank
fn check_hand(idx: &[usize]) {
    let slots: Vec<CKCNumber> = idx
        .iter()
        .map(|&i| if i == 52 { CardNumber::BLANK } else { CARDS[i].0 })
        .collect();
    let mut expected = 0u64;
    for &i in idx {
        if i != 52 {
            expected |= CARDS[i].1;
        }
    }
    let got = build(&slots);
    assert_eq!(got, expected, "hand {idx:?}");
    // exactly the distinct real cards
    let mut distinct: Vec<usize> = idx.iter().copied().filter(|&i| i != 52).collect();
    distinct.sort_unstable();
    distinct.dedup();
    assert_eq!(got.number_of_cards() as usize, distinct.len(), "hand {idx:?}");
    for (i, (_, bit)) in CARDS.iter().enumerate() {
        assert_eq!(got.has(*bit), distinct.contains(&i), "hand {idx:?} card {i}");
    }
    assert_eq!(got.is_valid(), !distinct.is_empty(), "hand {idx:?}");
    // folding the slots in one at a time is the same union
    let mut acc = 0u64;
    for &i in idx {
        if i != 52 {
            acc = acc.fold_in(CARDS[i].1);
        }
    }
    assert_eq!(acc, got);
}

#[test]
fn hands_of_two_exhaustive() {
    for a in 0..53 {
        for b in 0..53 {
            check_hand(&[a, b]);
        }
    }
}

#[test]
fn hands_of_three_exhaustive() {
    for a in 0..53 {
        for b in 0..53 {
            for c in 0..53 {
                let slots = [a, b, c].map(|i| if i == 52 { 0 } else { CARDS[i].0 });
                let mut e = 0u64;
                for i in [a, b, c] {
                    if i != 52 {
                        e |= CARDS[i].1;
                    }
                }
                assert_eq!(BinaryCard::from_three(Three::from(slots)), e);
            }
        }
    }
}

#[test]
fn hands_random_all_sizes() {
    let mut r = Rng(0xC15_0001);
    for size in 2..=7usize {
        // directed: all blank, all the same card, one card + blanks in every slot
        check_hand(&vec![52; size]);
        for c in 0..52 {
            check_hand(&vec![c; size]);
            for pos in 0..size {
                let mut h = vec![52; size];
                h[pos] = c;
                check_hand(&h);
            }
        }
        for round in 0..6000 {
            let mut h = Vec::with_capacity(size);
            // three regimes: uniform over 53 values, blank-heavy, duplicate-heavy (small pool)
            let pool = 2 + r.below(6);
            let base = r.below(52);
            for _ in 0..size {
                let v = match round % 3 {
                    0 => r.below(53),
                    1 => {
                        if r.below(2) == 0 {
                            52
                        } else {
                            r.below(52)
                        }
                    },
                    _ => {
                        let k = r.below(pool);
                        if k == 0 {
                            52
                        } else {
                            (base + k * 7) % 52
                        }
                    },
                };
                h.push(v);
            }
            check_hand(&h);
        }
    }
}

#[test]
fn hand_sets_peel_in_deck_order() {
    let mut r = Rng(0xC15_0002);
    for _ in 0..3000 {
        let size = 2 + r.below(6);
        let h: Vec<usize> = (0..size).map(|_| r.below(53)).collect();
        let slots: Vec<CKCNumber> = h.iter().map(|&i| if i == 52 { 0 } else { CARDS[i].0 }).collect();
        let set = build(&slots);
        check_set_clauses(set);
        check_peel(set);
    }
}

// ---------------------------------------------------------------------------------------------
// text

const RANKS: [&[char]; 13] = [
    &['A', 'a'],
    &['K', 'k'],
    &['Q', 'q'],
    &['J', 'j'],
    &['T', 't', '0'],
    &['9'],
    &['8'],
    &['7'],
    &['6'],
    &['5'],
    &['4'],
    &['3'],
    &['2'],
];
const SUITS: [&[char]; 4] = [
    &['S', 's', '♠', '♤'],
    &['H', 'h', '♥', '♡'],
    &['D', 'd', '♦', '♢'],
    &['C', 'c', '♣', '♧'],
];
/// two-character tokens that do not name a card
const NON_CARDS: [&str; 16] = [
    "XX", "__", "ZZ", "xx", "AX", "Ax", "XS", "xs", "1S", "1s", "A1", "SA", "sk", "♠A", "--", "B♣",
];
const SEPARATORS: [&str; 12] = [
    " ", "  ", "\t", "\n", "\r\n", " \t ", "\u{00A0}", "\u{2003}", "\u{3000}", "\u{2028}", "\u{1680}", "\u{000B}",
];

fn card_token(r: &mut Rng, card: usize) -> String {
    let suit = card / 13;
    let rank = card % 13;
    let rc = RANKS[rank][r.below(RANKS[rank].len())];
    let sc = SUITS[suit][r.below(SUITS[suit].len())];
    let mut s = String::new();
    s.push(rc);
    s.push(sc);
    s
}

#[test]
fn text_every_spelling_of_every_card() {
    for card in 0..52 {
        for rc in RANKS[card % 13] {
            for sc in SUITS[card / 13] {
                let tok: String = [*rc, *sc].iter().collect();
                assert_eq!(BinaryCard::from_index(&tok), CARDS[card].1, "token {tok}");
                let padded = format!("  {tok}\t");
                assert_eq!(BinaryCard::from_index(&padded), CARDS[card].1, "token {tok}");
            }
        }
    }
    for t in NON_CARDS {
        assert_eq!(BinaryCard::from_index(t), 0, "token {t}");
    }
    for t in ["", " ", "\t\n", "\u{3000}\u{2003}"] {
        assert_eq!(BinaryCard::from_index(t), 0);
    }
}

#[test]
fn text_random() {
    let mut r = Rng(0xC15_0003);
    for round in 0..6000 {
        let n_tokens = match round % 4 {
            0 => r.below(4),
            1 => r.below(9),
            2 => r.below(60),
            _ => 100 + r.below(400),
        };
        let mut text = String::new();
        let mut expected = 0u64;
        if r.below(2) == 0 {
            text.push_str(SEPARATORS[r.below(SEPARATORS.len())]);
        }
        let pool_base = r.below(52);
        for t in 0..n_tokens {
            if t > 0 {
                text.push_str(SEPARATORS[r.below(SEPARATORS.len())]);
            }
            match r.below(5) {
                0 => text.push_str(NON_CARDS[r.below(NON_CARDS.len())]),
                1 => {
                    // duplicate-prone: small pool
                    let c = (pool_base + r.below(3)) % 52;
                    expected |= CARDS[c].1;
                    text.push_str(&card_token(&mut r, c));
                },
                _ => {
                    let c = r.below(52);
                    expected |= CARDS[c].1;
                    text.push_str(&card_token(&mut r, c));
                },
            }
        }
        if r.below(2) == 0 {
            text.push_str(SEPARATORS[r.below(SEPARATORS.len())]);
        }
        let got = BinaryCard::from_index(&text);
        assert_eq!(got, expected, "text {text:?}");
        assert_eq!(got.number_of_cards(), popcount(expected));
        assert_eq!(got.is_valid(), expected != 0);
        if round % 16 == 0 {
            check_peel(got);
        }
    }
}

#[test]
fn text_whole_deck() {
    let mut r = Rng(0xC15_0004);
    let mut text = String::new();
    for c in (0..52).rev() {
        text.push_str(&card_token(&mut r, c));
        text.push(' ');
    }
    let all = BinaryCard::from_index(&text);
    assert_eq!(all, ALL52);
    assert!(all.is_valid());
    check_peel(all);
}

// ---------------------------------------------------------------------------------------------
// sets

#[test]
fn set_clauses_on_samples() {
    for s in sample_sets(0xC15_0005, 6000) {
        check_set_clauses(s);
    }
}

#[test]
fn union_and_subset_on_pairs() {
    let sets = sample_sets(0xC15_0006, 600);
    let mut r = Rng(0xC15_0007);
    for (i, &a) in sets.iter().enumerate() {
        for k in 0..24 {
            let b = if k < 12 { sets[(i * 31 + k * 17) % sets.len()] } else { r.next() & r.next() };
            let u = a.fold_in(b);
            assert_eq!(u, a | b, "union of {a:#x} and {b:#x}");
            assert_eq!(b.fold_in(a), u, "union commutes");
            assert_eq!(u.fold_in(b), u, "union is idempotent");
            assert_eq!(a.fold_in(0), a);
            assert_eq!(a.fold_in(a), a);
            assert!(u.has(a) && u.has(b), "union contains both operands");
            assert_eq!(a.has(b), b & !a == 0, "{a:#x} has {b:#x}");
            assert_eq!(b.has(a), a & !b == 0, "{b:#x} has {a:#x}");
            // subsets of a are had by a
            let sub = a & b;
            assert!(a.has(sub));
            assert_eq!(u.number_of_cards() + sub.number_of_cards(), a.number_of_cards() + b.number_of_cards());
        }
    }
}

#[test]
fn validity_boundary() {
    for low in [0u64, 1, 1 << 51, ALL52, <BinaryCard as BC64>::ACES] {
        assert_eq!(low.is_valid(), low != 0);
        for hi in 52..64 {
            assert!(!(low | (1u64 << hi)).is_valid());
        }
    }
    assert!((1u64 << 51).is_valid());
    assert!(!(1u64 << 52).is_valid());
    assert!(ALL52.is_valid());
    assert!(!(ALL52 + 1).is_valid());
    assert!(!0u64.is_valid());
}

#[test]
fn peel_to_exhaustion_on_samples() {
    for s in sample_sets(0xC15_0008, 4000) {
        check_peel(s);
    }
}

#[test]
fn peel_lists_members_in_deck_order() {
    // independent formulation: collect the peeled cards, compare to the deck filtered by membership
    for s in sample_sets(0xC15_0009, 2000) {
        let mut t = s;
        let mut listed = Vec::new();
        loop {
            let c = t.peel();
            if c == 0 {
                break;
            }
            listed.push(c);
            assert!(listed.len() <= 52);
        }
        let expected: Vec<u64> = CARDS.iter().map(|c| c.1).filter(|b| s & b != 0).collect();
        assert_eq!(listed, expected, "set {s:#x}");
    }
}

#[test]
fn histories() {
    let mut r = Rng(0xC15_000A);
    for _ in 0..1500 {
        let mut s: u64 = match r.below(4) {
            0 => 0,
            1 => r.next() & ALL52,
            2 => r.next(),
            _ => CARDS[r.below(52)].1,
        };
        let mut model = s;
        let steps = 20 + r.below(120);
        for _ in 0..steps {
            match r.below(6) {
                0 | 1 => {
                    let got = s.peel();
                    let cards = model & ALL52;
                    if cards == 0 {
                        assert_eq!(got, 0);
                    } else {
                        let top = CARDS.iter().map(|c| c.1).find(|b| cards & b != 0).unwrap();
                        assert_eq!(got, top);
                        model &= !top;
                    }
                    assert_eq!(s, model);
                },
                2 => {
                    let add = CARDS[r.below(52)].1;
                    s = s.fold_in(add);
                    model |= add;
                    assert_eq!(s, model);
                    assert!(s.has(add));
                },
                3 => {
                    let add = if r.below(3) == 0 { r.next() } else { r.next() & r.next() & ALL52 };
                    s = s.fold_in(add);
                    model |= add;
                    assert_eq!(s, model);
                },
                4 => {
                    let q = if r.below(2) == 0 { CARDS[r.below(52)].1 } else { r.next() & r.next() };
                    assert_eq!(s.has(q), q & !model == 0);
                },
                _ => {
                    assert_eq!(s.number_of_cards(), popcount(model));
                    assert_eq!(s.is_valid(), model != 0 && model >> 52 == 0);
                },
            }
        }
        check_peel(s);
    }
}
