//! Spot-checks of property C15 ("card bit-sets behave as sets") through the
//! public API only.  Drop in as `tests/props.rs`.
//!
//! The oracle here is written from the *statement* of the property, not from
//! the implementation: a card is an index 0..52 in deck order (0 = ace of
//! spades, 51 = deuce of clubs), its bit is `1 << (51 - index)`, and a set is
//! the OR of the bits of its members.

use ckc_rs::cards::binary_card::{BinaryCard, BC64};
use ckc_rs::cards::five::Five;
use ckc_rs::cards::four::Four;
use ckc_rs::cards::seven::Seven;
use ckc_rs::cards::six::Six;
use ckc_rs::cards::three::Three;
use ckc_rs::cards::two::Two;
use ckc_rs::deck::POKER_DECK;
use ckc_rs::{CKCNumber, CardNumber};

const CARD_BITS: u64 = (1u64 << 52) - 1;

// ---------------------------------------------------------------- helpers

/// splitmix64: small seeded generator, no external crates.
struct Rng(u64);

impl Rng {
    fn next(&mut self) -> u64 {
        self.0 = self.0.wrapping_add(0x9E37_79B9_7F4A_7C15);
        let mut z = self.0;
        z = (z ^ (z >> 30)).wrapping_mul(0xBF58_476D_1CE4_E5B9);
        z = (z ^ (z >> 27)).wrapping_mul(0x94D0_49BB_1331_11EB);
        z ^ (z >> 31)
    }

    fn below(&mut self, n: u64) -> u64 {
        self.next() % n
    }
}

/// Slot alphabet: 0..52 are the cards in deck order, 52 is blank.
fn slot_ckc(slot: usize) -> CKCNumber {
    if slot < 52 {
        POKER_DECK.arr()[slot]
    } else {
        CardNumber::BLANK
    }
}

fn slot_bit(slot: usize) -> u64 {
    if slot < 52 {
        1u64 << (51 - slot)
    } else {
        0
    }
}

fn model_set(slots: &[usize]) -> u64 {
    slots.iter().fold(0u64, |acc, s| acc | slot_bit(*s))
}

fn model_distinct(slots: &[usize]) -> u32 {
    let mut seen = [false; 52];
    let mut n = 0;
    for s in slots {
        if *s < 52 && !seen[*s] {
            seen[*s] = true;
            n += 1;
        }
    }
    n
}

fn build(slots: &[usize]) -> BinaryCard {
    let c: Vec<CKCNumber> = slots.iter().map(|s| slot_ckc(*s)).collect();
    match c.len() {
        2 => BinaryCard::from_two(Two::new(c[0], c[1])),
        3 => BinaryCard::from_three(Three::from([c[0], c[1], c[2]])),
        4 => BinaryCard::from_four(Four::from([c[0], c[1], c[2], c[3]])),
        5 => BinaryCard::from_five(Five::from([c[0], c[1], c[2], c[3], c[4]])),
        6 => BinaryCard::from_six(Six::from([c[0], c[1], c[2], c[3], c[4], c[5]])),
        7 => BinaryCard::from_seven(Seven::from([c[0], c[1], c[2], c[3], c[4], c[5], c[6]])),
        _ => unreachable!(),
    }
}

fn check_hand(slots: &[usize]) {
    let got = build(slots);
    let want = model_set(slots);
    assert_eq!(got, want, "set built from slots {:?}", slots);
    assert_eq!(got.number_of_cards(), model_distinct(slots), "count for slots {:?}", slots);
    assert_eq!(got.is_valid(), want != 0, "validity for slots {:?}", slots);
    for card in 0..52 {
        let member = slots.contains(&card);
        assert_eq!(got.has(slot_bit(card)), member, "has card {} for slots {:?}", card, slots);
    }
}

/// Structured sets plus seeded samples of the 2^64 bit-sets.
fn sample_sets() -> Vec<u64> {
    let mut v: Vec<u64> = vec![
        0,
        CARD_BITS,
        u64::MAX,
        !CARD_BITS,
        CARD_BITS + 1,
        CARD_BITS | (1u64 << 52),
        CARD_BITS | (1u64 << 63),
        (1u64 << 51) | (1u64 << 52),
        1 | (1u64 << 63),
        BinaryCard::ACES,
        BinaryCard::KINGS,
        BinaryCard::QUEENS,
        BinaryCard::JACKS,
        BinaryCard::TENS,
        BinaryCard::NINES,
        BinaryCard::EIGHTS,
        BinaryCard::SEVENS,
        BinaryCard::SIXES,
        BinaryCard::FIVES,
        BinaryCard::FOURS,
        BinaryCard::TREYS,
        BinaryCard::DEUCES,
        BinaryCard::ACES | !CARD_BITS,
        0x1FFF,
        0x1FFF << 13,
        0x1FFF << 26,
        0x1FFF << 39,
        0x5555_5555_5555_5555,
        0xAAAA_AAAA_AAAA_AAAA,
    ];
    for b in 0..64 {
        v.push(1u64 << b);
        v.push(!(1u64 << b));
        v.push((1u64 << b) | 1);
    }
    let mut rng = Rng(0xC15_C15_C15);
    for i in 0..20_000u64 {
        let r = rng.next();
        v.push(match i % 5 {
            0 => r,                          // anything
            1 => r & CARD_BITS,              // no overflow bits
            2 => r & rng.next() & rng.next(), // sparse
            3 => r | rng.next() | rng.next(), // dense
            _ => (r & CARD_BITS) | (1u64 << (52 + rng.below(12))), // one overflow bit
        });
    }
    v
}

// ---------------------------------------------------------------- constants

#[test]
fn constants_describe_52_card_bits_in_deck_order() {
    assert_eq!(BinaryCard::ALL, CARD_BITS);
    assert_eq!(BinaryCard::OVERFLOW, !CARD_BITS);
    assert_eq!(BinaryCard::BLANK, 0);
    for i in 0..52 {
        assert_eq!(BinaryCard::DECK[i], slot_bit(i));
    }
    assert_eq!(BinaryCard::ACE_SPADES, 1u64 << 51);
    assert_eq!(BinaryCard::DEUCE_CLUBS, 1);
}

// ---------------------------------------------------------------- containers

#[test]
fn from_two_exhaustive() {
    for a in 0..53 {
        for b in 0..53 {
            check_hand(&[a, b]);
        }
    }
}

#[test]
fn from_three_exhaustive() {
    for a in 0..53 {
        for b in 0..53 {
            for c in 0..53 {
                let got = build(&[a, b, c]);
                assert_eq!(got, model_set(&[a, b, c]));
                assert_eq!(got.number_of_cards(), model_distinct(&[a, b, c]));
            }
        }
    }
}

#[test]
fn from_n_structured_and_sampled() {
    for n in 2..=7usize {
        // all blank, all the same card, blank in every position, a duplicate in every pair
        check_hand(&vec![52; n]);
        for card in 0..52 {
            check_hand(&vec![card; n]);
            for hole in 0..n {
                let mut h = vec![card; n];
                h[hole] = 52;
                check_hand(&h);
                let mut h: Vec<usize> = (0..n).map(|k| (card + k) % 52).collect();
                check_hand(&h);
                h[hole] = 52;
                check_hand(&h);
                h[hole] = h[(hole + 1) % n];
                check_hand(&h);
            }
        }
        // seeded samples, skewed towards blanks and repeats
        let mut rng = Rng(0xF00D + n as u64);
        for i in 0..20_000 {
            let alphabet = match i % 3 {
                0 => 53,
                1 => 8,
                _ => 53,
            };
            let h: Vec<usize> = (0..n)
                .map(|_| {
                    let s = rng.below(alphabet) as usize;
                    if i % 3 == 2 && rng.below(4) == 0 {
                        52
                    } else if alphabet == 8 {
                        (s * 7) % 53
                    } else {
                        s
                    }
                })
                .collect();
            check_hand(&h);
        }
    }
}

// ---------------------------------------------------------------- text

const RANKS: [(&str, usize); 15] = [
    ("A", 0),
    ("a", 0),
    ("K", 1),
    ("Q", 2),
    ("j", 3),
    ("T", 4),
    ("t", 4),
    ("9", 5),
    ("8", 6),
    ("7", 7),
    ("6", 8),
    ("5", 9),
    ("4", 10),
    ("3", 11),
    ("2", 12),
];

const SUITS: [(&str, usize); 12] = [
    ("S", 0),
    ("s", 0),
    ("♠", 0),
    ("H", 1),
    ("h", 1),
    ("♥", 1),
    ("D", 2),
    ("d", 2),
    ("♦", 2),
    ("C", 3),
    ("c", 3),
    ("♣", 3),
];

const JUNK: [&str; 8] = ["XX", "A", "s", "1s", "Ax", "xs", "__", "ZZZ"];
const SEPS: [&str; 7] = [" ", "  ", "\t", "\n", " \t ", "\r\n", "\u{2003}"];

#[test]
fn from_index_single_tokens() {
    for (r, ri) in RANKS {
        for (s, si) in SUITS {
            let tok = format!("{}{}", r, s);
            let want = slot_bit(si * 13 + ri);
            assert_eq!(BinaryCard::from_index(&tok), want, "token {:?}", tok);
            assert_eq!(BinaryCard::from_index(&format!("  {}\t", tok)), want);
        }
    }
    for j in JUNK {
        assert_eq!(BinaryCard::from_index(j), 0, "junk token {:?}", j);
    }
    assert_eq!(BinaryCard::from_index(""), 0);
    assert_eq!(BinaryCard::from_index(" \t\n "), 0);
}

#[test]
fn from_index_token_lists() {
    let mut rng = Rng(0x7E47);
    for round in 0..20_000u64 {
        let n = match round % 4 {
            0 => rng.below(4),
            1 => rng.below(9),
            2 => rng.below(30),
            _ => rng.below(70),
        };
        let mut text = String::new();
        let mut want = 0u64;
        if rng.below(2) == 0 {
            text.push_str(SEPS[rng.below(SEPS.len() as u64) as usize]);
        }
        for _ in 0..n {
            if rng.below(5) == 0 {
                text.push_str(JUNK[rng.below(JUNK.len() as u64) as usize]);
            } else {
                let (r, ri) = RANKS[rng.below(RANKS.len() as u64) as usize];
                let (s, si) = SUITS[rng.below(SUITS.len() as u64) as usize];
                text.push_str(r);
                text.push_str(s);
                want |= slot_bit(si * 13 + ri);
            }
            text.push_str(SEPS[rng.below(SEPS.len() as u64) as usize]);
        }
        let got = BinaryCard::from_index(&text);
        assert_eq!(got, want, "text {:?}", text);
        assert_eq!(got.number_of_cards(), want.count_ones());
        assert_eq!(got.is_valid(), want != 0);
    }
    // the whole deck, and the whole deck twice
    let all: Vec<String> = (0..52)
        .map(|i| format!("{}{}", ["A", "K", "Q", "J", "T", "9", "8", "7", "6", "5", "4", "3", "2"][i % 13], ["S", "H", "D", "C"][i / 13]))
        .collect();
    assert_eq!(BinaryCard::from_index(&all.join(" ")), CARD_BITS);
    assert_eq!(BinaryCard::from_index(&format!("{} {}", all.join(" "), all.join("\t"))), CARD_BITS);
}

// ---------------------------------------------------------------- set algebra

#[test]
fn fold_in_is_union_and_has_is_subset() {
    let sets = sample_sets();
    let n = sets.len();
    for (i, a) in sets.iter().enumerate() {
        for b in [sets[(i * 7 + 1) % n], sets[(i * 13 + 5) % n], sets[n - 1 - i], 0, *a, !*a] {
            let u = a.fold_in(b);
            assert_eq!(u, *a | b, "fold_in {:#x} {:#x}", a, b);
            assert_eq!(b.fold_in(*a), u);
            assert_eq!(u.fold_in(b), u);
            assert!(u.has(*a) && u.has(b));
            assert_eq!(a.has(b), *a & b == b, "has {:#x} {:#x}", a, b);
            assert_eq!(a.has(*a & b), true);
        }
        assert!(a.has(0));
        for bit in 0..64 {
            assert_eq!(a.has(1u64 << bit), (*a >> bit) & 1 == 1);
        }
    }
}

#[test]
fn count_and_validity() {
    for s in sample_sets() {
        let mut members = 0;
        for bit in 0..64 {
            if (s >> bit) & 1 == 1 {
                members += 1;
            }
        }
        assert_eq!(s.number_of_cards(), members, "count of {:#x}", s);
        assert_eq!(s.is_valid(), s != 0 && (s >> 52) == 0, "validity of {:#x}", s);
        if s >> 52 == 0 {
            // is_single_card is only spot-checked on sets made of card bits:
            // the statement of C15 does not speak about it at all.
            assert_eq!(s.is_single_card(), members == 1, "single card {:#x}", s);
        }
    }
    // the boundary at bit 52
    assert!((1u64 << 51).is_valid());
    assert!(!(1u64 << 52).is_valid());
    assert!(CARD_BITS.is_valid());
    assert!(!(CARD_BITS + 1).is_valid());
    assert!(!(CARD_BITS | (1u64 << 52)).is_valid());
    assert!(!0u64.is_valid());
    assert!(!u64::MAX.is_valid());
    assert!(1u64.is_valid());
}

// ---------------------------------------------------------------- peel

fn check_peel_to_exhaustion(start: u64) {
    let mut set = start;
    let mut expected_rest = start;
    // members of the 52 card bits, highest first == deck order
    for bit in (0..52).rev() {
        if (start >> bit) & 1 == 0 {
            continue;
        }
        let card = set.peel();
        assert_eq!(card, 1u64 << bit, "peel order for {:#x}", start);
        expected_rest &= !(1u64 << bit);
        assert_eq!(set, expected_rest, "peel removes exactly the returned card ({:#x})", start);
    }
    assert_eq!(set, start & !CARD_BITS);
    for _ in 0..3 {
        assert_eq!(set.peel(), 0, "exhausted set returns blank ({:#x})", start);
        assert_eq!(set, start & !CARD_BITS, "exhausted set is left alone ({:#x})", start);
    }
}

#[test]
fn peel_lists_members_in_deck_order_then_blank() {
    for s in sample_sets() {
        check_peel_to_exhaustion(s);
    }
}

#[test]
fn peel_agrees_with_sets_built_from_hands_and_text() {
    let mut set = BinaryCard::from_index("2c AS 7d 7d XX KH as");
    let order = [BinaryCard::ACE_SPADES, BinaryCard::KING_HEARTS, BinaryCard::SEVEN_DIAMONDS, BinaryCard::DEUCE_CLUBS];
    for want in order {
        assert_eq!(set.peel(), want);
    }
    assert_eq!(set.peel(), BinaryCard::BLANK);
    assert_eq!(set, 0);

    let mut set = BinaryCard::from_seven(Seven::from([
        CardNumber::TREY_CLUBS,
        CardNumber::BLANK,
        CardNumber::ACE_HEARTS,
        CardNumber::TREY_CLUBS,
        CardNumber::DEUCE_SPADES,
        CardNumber::BLANK,
        CardNumber::ACE_HEARTS,
    ]));
    assert_eq!(set.number_of_cards(), 3);
    assert_eq!(set.peel(), BinaryCard::DEUCE_SPADES);
    assert_eq!(set.peel(), BinaryCard::ACE_HEARTS);
    assert_eq!(set.peel(), BinaryCard::TREY_CLUBS);
    assert_eq!(set.peel(), BinaryCard::BLANK);
    assert_eq!(set.peel(), BinaryCard::BLANK);
}
