//! Property C19: hand containers store and return exactly the words put into them.
//!
//! Drop in as `tests/props.rs`.  Public API only.  Checks exactly the clauses of the
//! statement and nothing else: no Debug / Ord / Hash / Default / serde / size assumptions,
//! no out-of-range selection indices, no sort, no parsing.
//!
//! Clauses:
//!  (A) construct from an array / from parts / by slot constructor, read back by accessor,
//!      by `to_arr`, by `iter`, by slot-index selection: the given words in the given slots.
//!  (B) any sequence of slot setters changes only the slot named each time; the container
//!      always equals a plain array that received the same writes.

use ckc_rs::cards::five::Five;
use ckc_rs::cards::four::Four;
use ckc_rs::cards::seven::Seven;
use ckc_rs::cards::six::Six;
use ckc_rs::cards::three::Three;
use ckc_rs::cards::two::Two;
use ckc_rs::cards::{HandValidator, Permutator};
use ckc_rs::CardNumber;

// ---------------------------------------------------------------------------------------
// deterministic generator (splitmix64)

struct Rng(u64);

impl Rng {
    fn new(seed: u64) -> Self {
        Rng(seed ^ 0x9E37_79B9_7F4A_7C15)
    }

    fn next(&mut self) -> u64 {
        self.0 = self.0.wrapping_add(0x9E37_79B9_7F4A_7C15);
        let mut z = self.0;
        z = (z ^ (z >> 30)).wrapping_mul(0xBF58_476D_1CE4_E5B9);
        z = (z ^ (z >> 27)).wrapping_mul(0x94D0_49BB_1331_11EB);
        z ^ (z >> 31)
    }

    fn below(&mut self, n: usize) -> usize {
        (self.next() % (n as u64)) as usize
    }

    /// Arbitrary u32 words: uniform, edge values, real cards, cards with multiples flags,
    /// single bits, near-duplicates of a previous word.
    fn word(&mut self, recent: u32) -> u32 {
        const CARDS: [u32; 8] = [
            CardNumber::ACE_SPADES,
            CardNumber::KING_HEARTS,
            CardNumber::DEUCE_CLUBS,
            CardNumber::TEN_DIAMONDS,
            CardNumber::FIVE_SPADES,
            CardNumber::TREY_HEARTS,
            CardNumber::QUEEN_CLUBS,
            CardNumber::BLANK,
        ];
        match self.below(10) {
            0 => [0, 1, u32::MAX, u32::MAX - 1, 0x8000_0000, 0x7FFF_FFFF, 0xFFFF_0000, 0x0000_FFFF][self.below(8)],
            1 => CARDS[self.below(8)],
            2 => CARDS[self.below(8)] | [CardNumber::PAIR, CardNumber::TRIPS, CardNumber::QUADS][self.below(3)],
            3 => 1u32 << self.below(32),
            4 => recent,
            5 => recent ^ (1u32 << self.below(32)),
            6 => recent.wrapping_add(1),
            _ => self.next() as u32,
        }
    }

    fn words<const N: usize>(&mut self) -> [u32; N] {
        let mut out = [0u32; N];
        let mut recent = self.next() as u32;
        for slot in out.iter_mut() {
            recent = self.word(recent);
            *slot = recent;
        }
        out
    }
}

// ---------------------------------------------------------------------------------------
// uniform view of the six containers through their public accessors / setters

trait Hand: Copy + HandValidator {
    const N: usize;
    const NAME: &'static str;
    fn from_words(words: &[u32]) -> Self;
    fn get(&self, slot: usize) -> u32;
    fn set(&mut self, slot: usize, word: u32);
    fn arr(&self) -> Vec<u32>;
}

macro_rules! hand {
    ($ty:ident, $n:expr, [$(($idx:expr, $get:ident, $set:ident)),+]) => {
        impl Hand for $ty {
            const N: usize = $n;
            const NAME: &'static str = stringify!($ty);

            fn from_words(words: &[u32]) -> Self {
                let mut a = [0u32; $n];
                a.copy_from_slice(words);
                <$ty>::from(a)
            }

            fn get(&self, slot: usize) -> u32 {
                match slot {
                    $($idx => self.$get(),)+
                    _ => unreachable!(),
                }
            }

            fn set(&mut self, slot: usize, word: u32) {
                match slot {
                    $($idx => self.$set(word),)+
                    _ => unreachable!(),
                }
            }

            fn arr(&self) -> Vec<u32> {
                self.to_arr().to_vec()
            }
        }
    };
}

hand!(Two, 2, [(0, first, set_first), (1, second, set_second)]);
hand!(Three, 3, [(0, first, set_first), (1, second, set_second), (2, third, set_third)]);
hand!(
    Four,
    4,
    [(0, first, set_first), (1, second, set_second), (2, third, set_third), (3, forth, set_forth)]
);
hand!(
    Five,
    5,
    [
        (0, first, set_first),
        (1, second, set_second),
        (2, third, set_third),
        (3, forth, set_forth),
        (4, fifth, set_fifth)
    ]
);
hand!(
    Six,
    6,
    [
        (0, first, set_first),
        (1, second, set_second),
        (2, third, set_third),
        (3, forth, set_forth),
        (4, fifth, set_fifth),
        (5, sixth, set_sixth)
    ]
);
hand!(
    Seven,
    7,
    [
        (0, first, set_first),
        (1, second, set_second),
        (2, third, set_third),
        (3, forth, set_forth),
        (4, fifth, set_fifth),
        (5, sixth, set_sixth),
        (6, seventh, set_seventh)
    ]
);

/// Every read path of clause (A) except selection, against the model.
fn check<H: Hand>(h: &H, model: &[u32], ctx: &str) {
    assert_eq!(model.len(), H::N);
    for slot in 0..H::N {
        assert_eq!(h.get(slot), model[slot], "{} accessor slot {} ({})", H::NAME, slot, ctx);
    }
    assert_eq!(h.arr(), model, "{} to_arr ({})", H::NAME, ctx);
    let iterated: Vec<u32> = h.iter().copied().collect();
    assert_eq!(iterated, model, "{} iter ({})", H::NAME, ctx);
    // a second pass over a fresh iterator gives the same thing; reading does not disturb
    let again: Vec<u32> = h.iter().copied().collect();
    assert_eq!(again, model, "{} iter twice ({})", H::NAME, ctx);
    for slot in 0..H::N {
        assert_eq!(h.get(slot), model[slot], "{} accessor after iter slot {} ({})", H::NAME, slot, ctx);
    }
}

fn five_words(f: &Five) -> [u32; 5] {
    // read the selected Five through all three read paths and insist they agree
    let by_acc = [f.first(), f.second(), f.third(), f.forth(), f.fifth()];
    let by_arr = f.to_arr();
    let by_iter: Vec<u32> = f.iter().copied().collect();
    assert_eq!(by_acc, by_arr);
    assert_eq!(by_iter, by_arr);
    by_arr
}

fn check_selection<P: Permutator>(p: &P, model: &[u32], perm: [u8; 5], ctx: &str) {
    let expect = [
        model[perm[0] as usize],
        model[perm[1] as usize],
        model[perm[2] as usize],
        model[perm[3] as usize],
        model[perm[4] as usize],
    ];
    let got = five_words(&p.five_from_permutation(perm));
    assert_eq!(got, expect, "selection {:?} ({})", perm, ctx);
}

fn random_perm(rng: &mut Rng, n: usize) -> [u8; 5] {
    let mut p = [0u8; 5];
    for i in p.iter_mut() {
        *i = rng.below(n) as u8; // in range only
    }
    p
}

// ---------------------------------------------------------------------------------------
// (A) construction and read-back

fn construct_from_array<H: Hand>(seed: u64, rounds: usize) {
    let mut rng = Rng::new(seed);
    for round in 0..rounds {
        let mut model = vec![0u32; H::N];
        let mut recent = rng.next() as u32;
        for w in model.iter_mut() {
            recent = rng.word(recent);
            *w = recent;
        }
        let h = H::from_words(&model);
        check(&h, &model, &format!("from array, round {}", round));
    }
}

#[test]
fn a_construct_from_array_all_sizes() {
    construct_from_array::<Two>(0xA2, 3000);
    construct_from_array::<Three>(0xA3, 3000);
    construct_from_array::<Four>(0xA4, 3000);
    construct_from_array::<Five>(0xA5, 3000);
    construct_from_array::<Six>(0xA6, 3000);
    construct_from_array::<Seven>(0xA7, 3000);
}

#[test]
fn a_slot_constructors() {
    let mut rng = Rng::new(0xB0);
    for round in 0..3000 {
        let w: [u32; 2] = rng.words();
        check(&Two::new(w[0], w[1]), &w, &format!("Two::new round {}", round));
        let v: [u32; 5] = rng.words();
        check(
            &Five::new(v[0], v[1], v[2], v[3], v[4]),
            &v,
            &format!("Five::new round {}", round),
        );
    }
    // all-same, all-zero and all-ones words
    for w in [0u32, 1, u32::MAX, CardNumber::ACE_SPADES] {
        check(&Two::new(w, w), &[w, w], "Two::new same");
        check(&Five::new(w, w, w, w, w), &[w, w, w, w, w], "Five::new same");
    }
}

#[test]
fn a_composite_constructors() {
    let mut rng = Rng::new(0xC0);
    for round in 0..3000 {
        let w: [u32; 6] = rng.words();
        // parts built every way the statement names
        let twos = [Two::new(w[1], w[2]), Two::from([w[1], w[2]])];
        let mut two_by_set = Two::from([!w[1], !w[2]]);
        two_by_set.set_second(w[2]);
        two_by_set.set_first(w[1]);
        let mut three_by_set = Three::from([!w[3], !w[4], !w[5]]);
        three_by_set.set_third(w[5]);
        three_by_set.set_first(w[3]);
        three_by_set.set_second(w[4]);
        let threes = [Three::from([w[3], w[4], w[5]]), three_by_set];
        for two in twos.iter().chain([two_by_set].iter()) {
            for three in threes.iter() {
                let six = Six::from_1_and_2_and_3(w[0], *two, *three);
                check(&six, &w, &format!("Six::from_1_and_2_and_3 round {}", round));
                check_selection(&six, &w, random_perm(&mut rng, 6), "six from parts");
            }
        }

        let s: [u32; 7] = rng.words();
        let mut five_by_set = Five::from([!s[2], !s[3], !s[4], !s[5], !s[6]]);
        five_by_set.set_fifth(s[6]);
        five_by_set.set_third(s[4]);
        five_by_set.set_first(s[2]);
        five_by_set.set_forth(s[5]);
        five_by_set.set_second(s[3]);
        let fives = [
            Five::new(s[2], s[3], s[4], s[5], s[6]),
            Five::from([s[2], s[3], s[4], s[5], s[6]]),
            five_by_set,
        ];
        for two in [Two::new(s[0], s[1]), Two::from([s[0], s[1]])] {
            for five in fives.iter() {
                let seven = Seven::new(two, *five);
                check(&seven, &s, &format!("Seven::new round {}", round));
                check_selection(&seven, &s, random_perm(&mut rng, 7), "seven from parts");
            }
        }
    }
}

#[test]
fn a_parts_are_copied_not_shared() {
    // changing a part after composing does not reach into the composite, and vice versa
    let mut two = Two::new(11, 12);
    let mut three = Three::from([13, 14, 15]);
    let mut six = Six::from_1_and_2_and_3(10, two, three);
    two.set_first(99);
    three.set_third(98);
    check(&six, &[10, 11, 12, 13, 14, 15], "six after part writes");
    six.set_second(77);
    check(&two, &[99, 12], "two after composite write");
    check(&three, &[13, 14, 98], "three after composite write");

    let mut two = Two::new(21, 22);
    let mut five = Five::new(23, 24, 25, 26, 27);
    let mut seven = Seven::new(two, five);
    two.set_second(99);
    five.set_forth(98);
    check(&seven, &[21, 22, 23, 24, 25, 26, 27], "seven after part writes");
    seven.set_seventh(1);
    seven.set_first(2);
    check(&two, &[21, 99], "two after seven write");
    check(&five, &[23, 24, 25, 98, 27], "five after seven write");
    check(&seven, &[2, 22, 23, 24, 25, 26, 1], "seven after own writes");
}

// ---------------------------------------------------------------------------------------
// (B) setters

fn every_slot_as_written_slot<H: Hand>(seed: u64) {
    let mut rng = Rng::new(seed);
    let specials = [0u32, 1, u32::MAX, 0x8000_0000, CardNumber::ACE_SPADES, CardNumber::QUADS | CardNumber::DEUCE_CLUBS];
    for round in 0..400 {
        let mut base = vec![0u32; H::N];
        let mut recent = rng.next() as u32;
        for w in base.iter_mut() {
            recent = rng.word(recent);
            *w = recent;
        }
        for slot in 0..H::N {
            let mut candidates: Vec<u32> = specials.to_vec();
            candidates.push(rng.next() as u32);
            candidates.push(base[slot]); // rewrite of the same word
            candidates.push(base[(slot + 1) % H::N]); // the neighbour's word
            candidates.push(!base[slot]);
            for word in candidates {
                let mut h = H::from_words(&base);
                let mut model = base.clone();
                h.set(slot, word);
                model[slot] = word;
                check(&h, &model, &format!("round {} write slot {} word {:#x}", round, slot, word));
                // write twice, then restore: still only that slot
                h.set(slot, !word);
                model[slot] = !word;
                check(&h, &model, "second write same slot");
                h.set(slot, base[slot]);
                check(&h, &base, "restored");
            }
        }
    }
}

#[test]
fn b_every_slot_of_every_size_as_written_slot() {
    every_slot_as_written_slot::<Two>(0xD2);
    every_slot_as_written_slot::<Three>(0xD3);
    every_slot_as_written_slot::<Four>(0xD4);
    every_slot_as_written_slot::<Five>(0xD5);
    every_slot_as_written_slot::<Six>(0xD6);
    every_slot_as_written_slot::<Seven>(0xD7);
}

/// Seeded history of constructor and setter calls against an array model, checked at every step.
/// `rebuild` re-constructs the container from a full set of words by a constructor of the size
/// in question (array / slot constructor / parts), chosen by `how`.
fn history<H: Hand>(seed: u64, steps: usize, rebuild: &dyn Fn(&[u32], usize) -> H) {
    let mut rng = Rng::new(seed);
    let mut model = vec![0u32; H::N];
    let mut recent = rng.next() as u32;
    for w in model.iter_mut() {
        recent = rng.word(recent);
        *w = recent;
    }
    let mut h = rebuild(&model, rng.below(4));
    check(&h, &model, "history start");
    for step in 0..steps {
        match rng.below(16) {
            0 => {
                // constructor call with fresh words
                for w in model.iter_mut() {
                    recent = rng.word(recent);
                    *w = recent;
                }
                h = rebuild(&model, rng.below(4));
            },
            1 => {
                // constructor call with the words read back (round trip)
                let words = h.arr();
                h = rebuild(&words, rng.below(4));
            },
            2 => {
                // burst on one slot
                let slot = rng.below(H::N);
                for _ in 0..rng.below(5) + 1 {
                    recent = rng.word(recent);
                    h.set(slot, recent);
                    model[slot] = recent;
                }
            },
            3 => {
                // sweep all slots in a random direction
                let up = rng.below(2) == 0;
                for k in 0..H::N {
                    let slot = if up { k } else { H::N - 1 - k };
                    recent = rng.word(recent);
                    h.set(slot, recent);
                    model[slot] = recent;
                }
            },
            4 => {
                // move a word from one slot to another through the public accessors
                let from = rng.below(H::N);
                let to = rng.below(H::N);
                let w = h.get(from);
                h.set(to, w);
                model[to] = model[from];
            },
            _ => {
                let slot = rng.below(H::N);
                recent = rng.word(recent);
                h.set(slot, recent);
                model[slot] = recent;
            },
        }
        check(&h, &model, &format!("seed {:#x} step {}", seed, step));
    }
}

fn rebuild_two(w: &[u32], how: usize) -> Two {
    match how {
        0 => Two::new(w[0], w[1]),
        _ => Two::from([w[0], w[1]]),
    }
}

fn rebuild_three(w: &[u32], _how: usize) -> Three {
    Three::from([w[0], w[1], w[2]])
}

fn rebuild_four(w: &[u32], _how: usize) -> Four {
    Four::from([w[0], w[1], w[2], w[3]])
}

fn rebuild_five(w: &[u32], how: usize) -> Five {
    match how {
        0 => Five::new(w[0], w[1], w[2], w[3], w[4]),
        _ => Five::from([w[0], w[1], w[2], w[3], w[4]]),
    }
}

fn rebuild_six(w: &[u32], how: usize) -> Six {
    match how {
        0 => Six::from_1_and_2_and_3(w[0], Two::new(w[1], w[2]), Three::from([w[3], w[4], w[5]])),
        1 => Six::from_1_and_2_and_3(w[0], Two::from([w[1], w[2]]), Three::from([w[3], w[4], w[5]])),
        _ => Six::from([w[0], w[1], w[2], w[3], w[4], w[5]]),
    }
}

fn rebuild_seven(w: &[u32], how: usize) -> Seven {
    match how {
        0 => Seven::new(Two::new(w[0], w[1]), Five::new(w[2], w[3], w[4], w[5], w[6])),
        1 => Seven::new(Two::from([w[0], w[1]]), Five::from([w[2], w[3], w[4], w[5], w[6]])),
        _ => Seven::from([w[0], w[1], w[2], w[3], w[4], w[5], w[6]]),
    }
}

#[test]
fn b_seeded_histories_all_sizes() {
    for seed in 0..150u64 {
        history::<Two>(0x2000 + seed, 300, &rebuild_two);
        history::<Three>(0x3000 + seed, 300, &rebuild_three);
        history::<Four>(0x4000 + seed, 300, &rebuild_four);
        history::<Five>(0x5000 + seed, 300, &rebuild_five);
        history::<Six>(0x6000 + seed, 300, &rebuild_six);
        history::<Seven>(0x7000 + seed, 300, &rebuild_seven);
    }
}

#[test]
fn b_long_lived_history() {
    history::<Two>(0xE2, 20_000, &rebuild_two);
    history::<Five>(0xE5, 20_000, &rebuild_five);
    history::<Six>(0xE6, 20_000, &rebuild_six);
    history::<Seven>(0xE7, 20_000, &rebuild_seven);
}

#[test]
fn b_copies_are_independent() {
    // plain language-level copies: writing one does not write the other
    let mut rng = Rng::new(0xF0);
    for _ in 0..500 {
        let w: [u32; 7] = rng.words();
        let a = Seven::from(w);
        let mut b = a;
        let slot = rng.below(7);
        let word = rng.next() as u32;
        Hand::set(&mut b, slot, word);
        let mut model = w.to_vec();
        check(&a, &model, "original after copy write");
        model[slot] = word;
        check(&b, &model, "copy after write");
    }
}

// ---------------------------------------------------------------------------------------
// (A) slot-index selection: every in-range index tuple, 6^5 and 7^5

fn all_tuples(n: u8, mut f: impl FnMut([u8; 5])) {
    for a in 0..n {
        for b in 0..n {
            for c in 0..n {
                for d in 0..n {
                    for e in 0..n {
                        f([a, b, c, d, e]);
                    }
                }
            }
        }
    }
}

#[test]
fn a_selection_every_in_range_tuple_six() {
    let mut rng = Rng::new(0x66);
    let mut hands: Vec<[u32; 6]> = vec![
        [1, 2, 3, 4, 5, 6],
        [0, 0, 0, 0, 0, 0],
        [u32::MAX, 0, u32::MAX, 0, u32::MAX, 0],
        [
            CardNumber::ACE_SPADES,
            CardNumber::KING_SPADES,
            CardNumber::QUEEN_SPADES,
            CardNumber::JACK_SPADES,
            CardNumber::TEN_SPADES,
            CardNumber::NINE_SPADES,
        ],
    ];
    for _ in 0..4 {
        hands.push(rng.words());
    }
    let mut count = 0usize;
    for w in hands {
        let by_array = Six::from(w);
        let by_parts = Six::from_1_and_2_and_3(w[0], Two::new(w[1], w[2]), Three::from([w[3], w[4], w[5]]));
        let mut by_setters = Six::from([!w[0], !w[1], !w[2], !w[3], !w[4], !w[5]]);
        by_setters.set_sixth(w[5]);
        by_setters.set_forth(w[3]);
        by_setters.set_second(w[1]);
        by_setters.set_first(w[0]);
        by_setters.set_third(w[2]);
        by_setters.set_fifth(w[4]);
        all_tuples(6, |perm| {
            check_selection(&by_array, &w, perm, "six by array");
            check_selection(&by_parts, &w, perm, "six by parts");
            check_selection(&by_setters, &w, perm, "six by setters");
            count += 1;
        });
        // selecting does not disturb the source
        check(&by_array, &w, "six after selections");
    }
    assert_eq!(count, 8 * 7776);
}

#[test]
fn a_selection_every_in_range_tuple_seven() {
    let mut rng = Rng::new(0x77);
    let mut hands: Vec<[u32; 7]> = vec![
        [1, 2, 3, 4, 5, 6, 7],
        [0, 0, 0, 0, 0, 0, 0],
        [u32::MAX, 0, u32::MAX, 0, u32::MAX, 0, u32::MAX],
        [
            CardNumber::ACE_SPADES,
            CardNumber::KING_SPADES,
            CardNumber::QUEEN_SPADES,
            CardNumber::JACK_SPADES,
            CardNumber::TEN_SPADES,
            CardNumber::NINE_SPADES,
            CardNumber::EIGHT_SPADES,
        ],
    ];
    for _ in 0..3 {
        hands.push(rng.words());
    }
    let mut count = 0usize;
    for w in hands {
        let by_array = Seven::from(w);
        let by_parts = Seven::new(Two::new(w[0], w[1]), Five::new(w[2], w[3], w[4], w[5], w[6]));
        let mut by_setters = Seven::from([!w[0], !w[1], !w[2], !w[3], !w[4], !w[5], !w[6]]);
        by_setters.set_seventh(w[6]);
        by_setters.set_first(w[0]);
        by_setters.set_sixth(w[5]);
        by_setters.set_second(w[1]);
        by_setters.set_fifth(w[4]);
        by_setters.set_third(w[2]);
        by_setters.set_forth(w[3]);
        all_tuples(7, |perm| {
            check_selection(&by_array, &w, perm, "seven by array");
            check_selection(&by_parts, &w, perm, "seven by parts");
            check_selection(&by_setters, &w, perm, "seven by setters");
            count += 1;
        });
        check(&by_array, &w, "seven after selections");
    }
    assert_eq!(count, 7 * 16807);
}

#[test]
fn a_selection_tracks_setter_histories() {
    // selection is a read path like any other: after every write it sees the model
    let mut rng = Rng::new(0x99);
    for _ in 0..200 {
        let w6: [u32; 6] = rng.words();
        let mut six = Six::from(w6);
        let mut m6 = w6.to_vec();
        let w7: [u32; 7] = rng.words();
        let mut seven = Seven::from(w7);
        let mut m7 = w7.to_vec();
        for step in 0..60 {
            let s6 = rng.below(6);
            let s7 = rng.below(7);
            let a = rng.next() as u32;
            let b = rng.word(a);
            Hand::set(&mut six, s6, a);
            m6[s6] = a;
            Hand::set(&mut seven, s7, b);
            m7[s7] = b;
            for _ in 0..4 {
                check_selection(&six, &m6, random_perm(&mut rng, 6), &format!("six step {}", step));
                check_selection(&seven, &m7, random_perm(&mut rng, 7), &format!("seven step {}", step));
            }
            // the listed permutation tables are in-range tuples too
            check_selection(&six, &m6, Six::FIVE_CARD_PERMUTATIONS[step % 6], "six table");
            check_selection(&seven, &m7, Seven::FIVE_CARD_PERMUTATIONS[step % 21], "seven table");
        }
        check(&six, &m6, "six end");
        check(&seven, &m7, "seven end");
    }
}

// ---------------------------------------------------------------------------------------
// (B) setters on a container not built by one of the named constructors.  The statement does not
// say what a `Default` container holds, so the model is initialised from what is observed; from
// there on every write must land in the named slot only.

fn setters_from_default<H: Hand + Default>(seed: u64) {
    let mut rng = Rng::new(seed);
    let mut h = H::default();
    let mut model = h.arr();
    check(&h, &model, "default start, model from observation");
    let mut recent = 0u32;
    for step in 0..500 {
        let slot = rng.below(H::N);
        recent = rng.word(recent);
        h.set(slot, recent);
        model[slot] = recent;
        check(&h, &model, &format!("from default, step {}", step));
    }
}

#[test]
fn b_setters_from_default_start() {
    setters_from_default::<Two>(0x1D2);
    setters_from_default::<Three>(0x1D3);
    setters_from_default::<Four>(0x1D4);
    setters_from_default::<Five>(0x1D5);
    setters_from_default::<Six>(0x1D6);
    setters_from_default::<Seven>(0x1D7);
}
