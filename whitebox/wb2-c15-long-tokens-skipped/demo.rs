// C15 (read with C12): a set built from text contains exactly the real cards among its
// whitespace-separated tokens, and a token is a card iff it *starts* with a rank symbol followed
// by a suit symbol, "with arbitrary tails".
use ckc_rs::cards::binary_card::{BinaryCard, BC64};
use ckc_rs::{CKCNumber, CardNumber, PokerCard};

#[test]
fn a_card_token_with_a_long_tail_is_still_a_member() {
    // the card parser itself (C12) agrees that these tokens are cards
    assert_eq!(CKCNumber::from_index("AS-highlighted"), CardNumber::ACE_SPADES);
    assert_eq!(CKCNumber::from_index("K♠(dealer)"), CardNumber::KING_SPADES);

    // short tails: fine before and after the change
    assert_eq!(BinaryCard::from_index("ASx K♠!"), BinaryCard::ACE_SPADES | BinaryCard::KING_SPADES);

    // tails that make the token longer than eight bytes
    let set = BinaryCard::from_index("AS-highlighted K♠(dealer) 2c");
    assert_eq!(set, BinaryCard::ACE_SPADES | BinaryCard::KING_SPADES | BinaryCard::DEUCE_CLUBS, "members lost: {:#x}", set);
    assert_eq!(set.number_of_cards(), 3);
}
