// C19: any sequence of slot setters changes only the slot named each time, so the container always
// equals a plain array that received the same writes.
// The application below does what applications using the `log` facade do: it installs a logger
// and raises the level. Nothing else differs from the harness's way of calling the crate.
use ckc_rs::cards::six::Six;

struct Sink;

impl log::Log for Sink {
    fn enabled(&self, _: &log::Metadata) -> bool {
        true
    }
    fn log(&self, record: &log::Record) {
        struct Null;
        impl core::fmt::Write for Null {
            fn write_str(&mut self, _: &str) -> core::fmt::Result {
                Ok(())
            }
        }
        let _ = core::fmt::write(&mut Null, *record.args());
    }
    fn flush(&self) {}
}

static SINK: Sink = Sink;

#[test]
fn a_setter_writes_the_slot_it_names_when_trace_logging_is_enabled() {
    // facade at its default (no logger, level Off): as before
    let mut six = Six::from([10, 11, 12, 13, 14, 15]);
    six.set_second(21);
    six.set_sixth(25);
    assert_eq!(six.to_arr(), [10, 21, 12, 13, 14, 25]);

    let _ = log::set_logger(&SINK);
    log::set_max_level(log::LevelFilter::Trace);

    let mut six = Six::from([10, 11, 12, 13, 14, 15]);
    let mut model = [10u32, 11, 12, 13, 14, 15];
    six.set_first(20);
    model[0] = 20;
    assert_eq!(six.to_arr(), model, "after set_first");
    six.set_third(22);
    model[2] = 22;
    assert_eq!(six.to_arr(), model, "after set_third");
    assert_eq!(six.third(), 22);
}
