// C15 (read with C12): a set built from text contains exactly the real cards among its tokens; a
// token is a card only if its second character is a suit symbol: S H D C in either case, or one of
// the eight filled / outline suit glyphs U+2660..U+2667. The musical signs that follow them in the
// same Unicode block (♨ ♩ ♪ ♫ ♬ ♭ ♮ ♯, U+2668..U+266F) are not suit symbols.
use ckc_rs::cards::binary_card::{BinaryCard, BC64};

#[test]
fn the_neighbours_of_the_suit_glyphs_are_not_suits() {
    // all sixteen accepted suit spellings: fine before and after
    assert_eq!(BinaryCard::from_index("A♠ K♤ Qs JS"), BinaryCard::ACE_SPADES | BinaryCard::KING_SPADES | BinaryCard::QUEEN_SPADES | BinaryCard::JACK_SPADES);
    assert_eq!(BinaryCard::from_index("A♥ K♡ Qh JH"), BinaryCard::ACE_HEARTS | BinaryCard::KING_HEARTS | BinaryCard::QUEEN_HEARTS | BinaryCard::JACK_HEARTS);
    assert_eq!(BinaryCard::from_index("A♦ K♢ Qd JD"), BinaryCard::ACE_DIAMONDS | BinaryCard::KING_DIAMONDS | BinaryCard::QUEEN_DIAMONDS | BinaryCard::JACK_DIAMONDS);
    assert_eq!(BinaryCard::from_index("A♣ K♧ Qc JC"), BinaryCard::ACE_CLUBS | BinaryCard::KING_CLUBS | BinaryCard::QUEEN_CLUBS | BinaryCard::JACK_CLUBS);

    // A flat, A sharp, a hot spring and a quaver are not cards
    for junk in ["A♭", "A♯", "K♨", "7♪", "T\u{2669}", "2\u{266B}", "Q\u{266C}", "j\u{266E}"] {
        assert_eq!(BinaryCard::from_index(junk), BinaryCard::BLANK, "token {:?} is not a card", junk);
    }
    let set = BinaryCard::from_index("K♠ A♭ Q♠");
    assert_eq!(set, BinaryCard::KING_SPADES | BinaryCard::QUEEN_SPADES, "got {:#x}", set);
    assert!(!set.has(BinaryCard::ACE_HEARTS));
}
