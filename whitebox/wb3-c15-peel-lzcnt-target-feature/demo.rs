// Build configuration matters for this one: the faulty arm exists only when the compiler may use
// LZCNT. Run as
//     RUSTFLAGS="-C target-cpu=native" cargo test --offline --test demo      (or -C target-feature=+lzcnt)
// FAILS with the change under those flags, PASSES without the change under the same flags.
// (Without the flags the faulty arm is not compiled and the test passes either way.)
//
// C15: "a set is valid exactly when it is non-empty with no bits above the 52 card bits. Peeling
// removes and returns the highest remaining card in deck order ... and then returns blank without
// changing the set." Quantifier: "... structured ones (..., sets with overflow bits)".
use ckc_rs::cards::binary_card::{BinaryCard, BC64};

#[test]
fn peel_returns_cards_even_when_the_set_carries_bits_above_the_card_range() {
    let high = 1u64 << 60;
    let mut set: BinaryCard = BinaryCard::ACE_SPADES | BinaryCard::DEUCE_CLUBS | high;
    assert!(!set.is_valid());
    assert_eq!(set.peel(), BinaryCard::ACE_SPADES, "the highest remaining card is the ace of spades");
    assert_eq!(set.peel(), BinaryCard::DEUCE_CLUBS);
    assert_eq!(set.peel(), BinaryCard::BLANK);
    assert_eq!(set, high, "peeling to exhaustion must leave the non-card bit alone");
}

#[test]
fn peel_on_a_set_without_cards_returns_blank_and_changes_nothing() {
    let mut set: BinaryCard = 1u64 << 52;
    assert_eq!(set.peel(), BinaryCard::BLANK);
    assert_eq!(set, 1u64 << 52);
}
