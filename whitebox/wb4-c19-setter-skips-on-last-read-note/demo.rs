//! C19: "constructing from an array ... and then reading back ... returns the given words in the
//! given slots. Any sequence of slot setters changes only the slot named each time, so the
//! container always equals a plain array that received the same writes."
use ckc_rs::cards::seven::Seven;
use ckc_rs::cards::HandValidator;

#[test]
fn a_setter_call_right_after_the_variable_was_given_a_new_hand_is_stored() {
    let a: [u32; 7] = [0x11, 0x12, 0x13, 0x14, 0x15, 0x16, 0x17];
    let b: [u32; 7] = [0x21, 0x22, 0x23, 0x24, 0x25, 0x26, 0x27];

    let mut hand = Seven::from(a);
    let mut model = a;
    assert_eq!(hand.seventh(), model[6]); // look at the last slot

    hand = Seven::from(b); // the variable receives another hand (no read in between)
    model = b;
    hand.set_seventh(a[6]); // write the word seen a moment ago into the new hand
    model[6] = a[6];

    assert_eq!(hand.to_arr(), model, "the container must equal the array that received the same writes");
    assert_eq!(hand.seventh(), model[6]);

    // the same through the trait's first(): read slot 0, replace the hand by a copy of another, write slot 0
    let other = Seven::from(a);
    let w = hand.first();
    hand = other;
    model = a;
    hand.set_first(w);
    model[0] = w;
    assert_eq!(hand.to_arr(), model);
    assert_eq!(hand.iter().copied().collect::<Vec<u32>>(), model.to_vec());
}
