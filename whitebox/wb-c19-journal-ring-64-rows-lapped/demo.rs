//! C19: any sequence of slot setters changes only the slot named each time, so a container always
//! equals a plain array that received the same writes — for every caller, also when other callers
//! are writing to *their own* containers at the same time.
use ckc_rs::cards::five::Five;
use ckc_rs::cards::seven::Seven;
use std::sync::atomic::{AtomicBool, AtomicU64, Ordering};
use std::sync::Arc;
use std::thread;
use std::time::{Duration, Instant};

/// Single-threaded: thousands of writes in a row behave like writes to an array.
#[test]
fn one_caller_many_writes() {
    let mut five = Five::from([1, 2, 3, 4, 5]);
    let mut model = [1u32, 2, 3, 4, 5];
    for i in 0..100_000u32 {
        let k = (i % 5) as usize;
        let w = 0x4000_0000 | i;
        match k {
            0 => five.set_first(w),
            1 => five.set_second(w),
            2 => five.set_third(w),
            3 => five.set_forth(w),
            _ => five.set_fifth(w),
        }
        model[k] = w;
        assert_eq!(five.to_arr(), model);
    }
}

/// Many callers, each with a container of its own that nobody else ever touches.
#[test]
fn every_caller_sees_its_own_writes() {
    let cores = thread::available_parallelism().map(|n| n.get()).unwrap_or(4);
    let callers = (cores * 4).max(16);
    let stop = Arc::new(AtomicBool::new(false));
    let bad = Arc::new(AtomicU64::new(0));
    let deadline = Instant::now() + Duration::from_secs(20);
    let handles: Vec<_> = (0..callers)
        .map(|t| {
            let (stop, bad) = (stop.clone(), bad.clone());
            thread::spawn(move || {
                // words that name their writer: thread number in the top byte
                let tag = |i: u32| ((t as u32 + 1) << 24) | (i & 0x00FF_FFFF);
                let mut seven = Seven::from([tag(0); 7]);
                let mut model = [tag(0); 7];
                let mut i = 0u32;
                while !stop.load(Ordering::Relaxed) {
                    i = i.wrapping_add(1);
                    let k = (i % 7) as usize;
                    let w = tag(i);
                    match k {
                        0 => seven.set_first(w),
                        1 => seven.set_second(w),
                        2 => seven.set_third(w),
                        3 => seven.set_forth(w),
                        4 => seven.set_fifth(w),
                        5 => seven.set_sixth(w),
                        _ => seven.set_seventh(w),
                    }
                    model[k] = w;
                    if seven.to_arr() != model {
                        bad.fetch_add(1, Ordering::Relaxed);
                        stop.store(true, Ordering::Relaxed);
                        eprintln!("caller {}: after write #{} of {:#010x} to slot {} the container holds {:x?}, an array that received the same writes holds {:x?}", t, i, w, k, seven.to_arr(), model);
                    }
                    if i % 4096 == 0 && Instant::now() > deadline {
                        break;
                    }
                }
            })
        })
        .collect();
    let mut panicked = 0;
    for h in handles {
        if h.join().is_err() {
            panicked += 1;
            stop.store(true, Ordering::Relaxed);
        }
    }
    assert_eq!((bad.load(Ordering::Relaxed), panicked), (0, 0), "a caller's container stopped matching its own writes (or a setter panicked)");
}
