//! C15: "A set built ... from text contains exactly the distinct real cards among its ... tokens".
//! Tokens are separated by whitespace; how much of it stands between two tokens does not matter.
use ckc_rs::cards::binary_card::{BinaryCard, BC64};

#[test]
fn set_from_text_has_every_card_token_whatever_the_width_of_the_gaps() {
    let want = BinaryCard::ACE_SPADES | BinaryCard::KING_DIAMONDS | BinaryCard::QUEEN_DIAMONDS;
    // one plain space between tokens: the baseline
    assert_eq!(BinaryCard::from_index("A♠ K♦ Q♦"), want);
    // a space followed by a no-break space (what copy-and-paste from a web page gives)
    assert_eq!(BinaryCard::from_index("A♠ \u{00A0}K♦ Q♦"), want);
    // two ideographic spaces
    assert_eq!(BinaryCard::from_index("A♠\u{3000}\u{3000}K♦ Q♦"), want);
    // a tab followed by a vertical tab
    assert_eq!(BinaryCard::from_index("A♠\t\u{000B}K♦ Q♦"), want);
    // and the count is the number of members
    assert_eq!(BinaryCard::from_index("A♠ \u{00A0}K♦ Q♦").number_of_cards(), 3);
}
