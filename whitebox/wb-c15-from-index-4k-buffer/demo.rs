//! C15: a set built from text contains exactly the distinct real cards among its tokens —
//! however many tokens there are.
use ckc_rs::cards::binary_card::{BinaryCard, BC64};

fn long_index(repeats: usize, last: &str) -> String {
    let mut text = String::new();
    for i in 0..repeats {
        text.push_str(if i % 2 == 0 { "2♣ " } else { "2c\t" });
    }
    text.push_str(last);
    text
}

#[test]
fn a_card_that_first_appears_late_in_a_long_text_is_a_member() {
    for repeats in [10usize, 100, 300, 600, 1000, 1500, 5000, 50_000] {
        let text = long_index(repeats, "A♠");
        let mut set = BinaryCard::from_index(&text);
        assert_eq!(set, BinaryCard::ACE_SPADES | BinaryCard::DEUCE_CLUBS, "{} tokens, {} bytes: got {:#x}", repeats + 1, text.len(), set);
        assert_eq!(set.number_of_cards(), 2);
        assert!(set.has(BinaryCard::ACE_SPADES));
        assert_eq!(set.peel(), BinaryCard::ACE_SPADES);
        assert_eq!(set.peel(), BinaryCard::DEUCE_CLUBS);
        assert_eq!(set.peel(), BinaryCard::BLANK);
    }
}

#[test]
fn whole_deck_repeated_many_times_is_still_the_whole_deck() {
    let ranks = "AKQJT98765432";
    let suits = "♠♥♦♣";
    let mut text = String::new();
    // 40 junk-padded copies of the first 51 cards, and only then the deuce of clubs
    for round in 0..40 {
        for s in suits.chars() {
            for r in ranks.chars() {
                if !(r == '2' && s == '♣') {
                    text.push(r);
                    text.push(s);
                    text.push_str(if round % 2 == 0 { " " } else { "\n" });
                }
            }
        }
        text.push_str("XX ");
    }
    text.push_str("2♣");
    let set = BinaryCard::from_index(&text);
    assert_eq!(set, BinaryCard::ALL, "text of {} bytes", text.len());
    assert_eq!(set.number_of_cards(), 52);
}
