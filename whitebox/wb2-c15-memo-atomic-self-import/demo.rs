// C15: a set built from text contains exactly the distinct real cards among its tokens — for
// every caller, also when another thread of the same program is parsing its own texts.
// Four callers parse two fixed texts alternately and compare every answer with the right one.
use ckc_rs::cards::binary_card::{BinaryCard, BC64};
use std::sync::atomic::{AtomicBool, AtomicU64, Ordering};
use std::sync::Arc;
use std::time::{Duration, Instant};

const BOARD: &str = "A♠ K♠ Q♠ J♠ T♠";
const HOLE: &str = "2c 7d";

#[test]
fn every_caller_gets_the_set_of_its_own_text() {
    let board = BinaryCard::ACE_SPADES | BinaryCard::KING_SPADES | BinaryCard::QUEEN_SPADES | BinaryCard::JACK_SPADES | BinaryCard::TEN_SPADES;
    let hole = BinaryCard::DEUCE_CLUBS | BinaryCard::SEVEN_DIAMONDS;
    // one caller alone: right before and after the change
    for _ in 0..1000 {
        assert_eq!(BinaryCard::from_index(BOARD), board);
        assert_eq!(BinaryCard::from_index(HOLE), hole);
    }

    let stop = Arc::new(AtomicBool::new(false));
    let wrong = Arc::new(AtomicU64::new(0));
    let deadline = Instant::now() + Duration::from_secs(10);
    let threads: Vec<_> = (0..4)
        .map(|t| {
            let (stop, wrong) = (stop.clone(), wrong.clone());
            std::thread::spawn(move || {
                let mut n = t as u64;
                while !stop.load(Ordering::Relaxed) {
                    n += 1;
                    let (text, want) = if n % 2 == 0 { (BOARD, board) } else { (HOLE, hole) };
                    if BinaryCard::from_index(text) != want {
                        wrong.fetch_add(1, Ordering::Relaxed);
                        stop.store(true, Ordering::Relaxed);
                    }
                    if n % 4096 == 0 && Instant::now() > deadline {
                        stop.store(true, Ordering::Relaxed);
                    }
                }
            })
        })
        .collect();
    for h in threads {
        h.join().unwrap();
    }
    assert_eq!(wrong.load(Ordering::Relaxed), 0, "a caller was handed the set of another caller's text");
}
