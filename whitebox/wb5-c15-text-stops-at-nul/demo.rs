// C15: "A set built from ... text contains exactly the distinct real cards among its ... tokens".
// Tokens are what whitespace separates; U+0000 is not whitespace, so "A♠\0" is one token (the ace of
// spades with a one-character tail, still that card) and "K♠", "Q♥" are two more tokens.
use ckc_rs::cards::binary_card::{BinaryCard, BC64};

#[test]
fn cards_after_a_nul_character_are_still_tokens_of_the_text() {
    let plain = BinaryCard::from_index("A♠ K♠ Q♥");
    assert_eq!(plain.number_of_cards(), 3);

    let with_nul = BinaryCard::from_index("A♠\0 K♠ Q♥");
    assert!(with_nul.has(BinaryCard::ACE_SPADES));
    assert!(with_nul.has(BinaryCard::KING_SPADES), "K♠ is a token of the text and must be a member");
    assert!(with_nul.has(BinaryCard::QUEEN_HEARTS), "Q♥ is a token of the text and must be a member");
    assert_eq!(with_nul, plain);

    // a NUL inside a non-card token changes nothing either
    let junk = BinaryCard::from_index("x\0y 2♣ 3♦");
    assert_eq!(junk.number_of_cards(), 2);
    assert!(junk.has(BinaryCard::DEUCE_CLUBS) && junk.has(BinaryCard::TREY_DIAMONDS));
}
