//! C15: a set built from text contains exactly the distinct real cards among its
//! whitespace-separated tokens (whitespace in the Unicode sense, as `char::is_whitespace`).
use ckc_rs::cards::binary_card::{BinaryCard, BC64};

/// Every code point with the Unicode White_Space property.
const WHITE_SPACE: [char; 25] = [
    '\u{0009}', '\u{000A}', '\u{000B}', '\u{000C}', '\u{000D}', '\u{0020}', '\u{0085}', '\u{00A0}', '\u{1680}', '\u{2000}', '\u{2001}', '\u{2002}', '\u{2003}',
    '\u{2004}', '\u{2005}', '\u{2006}', '\u{2007}', '\u{2008}', '\u{2009}', '\u{200A}', '\u{2028}', '\u{2029}', '\u{202F}', '\u{205F}', '\u{3000}',
];

#[test]
fn every_unicode_white_space_character_separates_tokens() {
    let want = BinaryCard::ACE_SPADES | BinaryCard::KING_HEARTS;
    for ws in WHITE_SPACE {
        assert!(ws.is_whitespace());
        let text = format!("A♠{}K♥", ws);
        let got = BinaryCard::from_index(&text);
        assert_eq!(got, want, "separator U+{:04X}: {:?} gave {:#x}, expected A♠ K♥ = {:#x}", ws as u32, text, got, want);
        assert_eq!(got.number_of_cards(), 2);
    }
}

#[test]
fn french_style_narrow_no_break_space_between_cards() {
    // "Q♦ J♦" typed with U+202F NARROW NO-BREAK SPACE
    let mut set = BinaryCard::from_index("Q♦\u{202F}J♦");
    assert_eq!(set.peel(), BinaryCard::QUEEN_DIAMONDS);
    assert_eq!(set.peel(), BinaryCard::JACK_DIAMONDS);
    assert_eq!(set.peel(), BinaryCard::BLANK);
}
