// C15 / C12: "As,Kh" has no whitespace, so it is ONE token; that token starts with rank+suit
// symbols ('A','s') and therefore is the ace of spades with a tail ",Kh". The set built from the
// text must contain exactly the distinct real cards among its tokens: {A♠}, nothing else.
use ckc_rs::cards::binary_card::{BinaryCard, BC64};

#[test]
fn comma_glued_token_is_one_card() {
    let set = BinaryCard::from_index("As,Kh");
    assert_eq!(set, BinaryCard::ACE_SPADES, "set from \"As,Kh\" = {:#x}: king of hearts is not a token of this text", set);
    assert_eq!(set.number_of_cards(), 1);
    assert!(!set.has(BinaryCard::KING_HEARTS));
}

#[test]
fn comma_glued_token_between_ordinary_tokens() {
    // three whitespace-separated tokens: "2c", "Td,9d,8d" (= T♦ with a tail), "2h"
    let set = BinaryCard::from_index("2c Td,9d,8d 2h");
    let want = BinaryCard::DEUCE_CLUBS | BinaryCard::TEN_DIAMONDS | BinaryCard::DEUCE_HEARTS;
    assert_eq!(set, want);
    let mut s = set;
    assert_eq!(s.peel(), BinaryCard::DEUCE_HEARTS);
    assert_eq!(s.peel(), BinaryCard::TEN_DIAMONDS);
    assert_eq!(s.peel(), BinaryCard::DEUCE_CLUBS);
    assert_eq!(s.peel(), BinaryCard::BLANK);
}
