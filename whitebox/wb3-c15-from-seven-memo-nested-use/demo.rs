// C15: "A set built from a hand of any size ... contains exactly the distinct real cards among its
// slots." Every caller below converts its OWN hands and compares with the union of the per-card
// bits; no object is shared between threads. On the unchanged tree this can never fail.
use ckc_rs::cards::binary_card::{BinaryCard, BC64};
use ckc_rs::cards::seven::Seven;
use ckc_rs::CardNumber;
use std::sync::atomic::{AtomicBool, AtomicU64, Ordering};
use std::sync::Arc;

fn expected(words: [u32; 7]) -> u64 {
    words.iter().fold(0u64, |a, w| a | BinaryCard::from_ckc(*w))
}

#[test]
fn every_caller_gets_the_set_of_its_own_hand() {
    let hands: [[u32; 7]; 4] = [
        [CardNumber::ACE_SPADES, CardNumber::KING_SPADES, CardNumber::QUEEN_SPADES, CardNumber::JACK_SPADES, CardNumber::TEN_SPADES, CardNumber::NINE_SPADES, CardNumber::EIGHT_SPADES],
        [CardNumber::ACE_HEARTS, CardNumber::KING_HEARTS, CardNumber::QUEEN_HEARTS, CardNumber::JACK_HEARTS, CardNumber::TEN_HEARTS, CardNumber::NINE_HEARTS, CardNumber::EIGHT_HEARTS],
        [CardNumber::ACE_DIAMONDS, CardNumber::KING_DIAMONDS, CardNumber::QUEEN_DIAMONDS, CardNumber::JACK_DIAMONDS, CardNumber::TEN_DIAMONDS, CardNumber::NINE_DIAMONDS, CardNumber::EIGHT_DIAMONDS],
        [CardNumber::ACE_CLUBS, CardNumber::KING_CLUBS, CardNumber::QUEEN_CLUBS, CardNumber::JACK_CLUBS, CardNumber::TEN_CLUBS, CardNumber::NINE_CLUBS, CardNumber::EIGHT_CLUBS],
    ];
    // sequentially everything is right (this part passes with and without the change)
    for h in hands {
        assert_eq!(BinaryCard::from_seven(Seven::from(h)), expected(h));
        assert_eq!(BinaryCard::from_seven(Seven::from(h)), expected(h));
    }
    let wrong = Arc::new(AtomicBool::new(false));
    let detail = Arc::new([AtomicU64::new(0), AtomicU64::new(0)]);
    let mut joins = Vec::new();
    for t in 0..2usize {
        let (wrong, detail) = (wrong.clone(), detail.clone());
        joins.push(std::thread::spawn(move || {
            let mine = [hands[2 * t], hands[2 * t + 1]];
            let want = [expected(mine[0]), expected(mine[1])];
            for i in 0..20_000_000usize {
                if wrong.load(Ordering::Relaxed) {
                    return;
                }
                let k = (i / 3) & 1; // the same hand a few times in a row, then the other one
                let got = BinaryCard::from_seven(Seven::from(mine[k]));
                if got != want[k] {
                    detail[0].store(got, Ordering::Relaxed);
                    detail[1].store(want[k], Ordering::Relaxed);
                    wrong.store(true, Ordering::Relaxed);
                    return;
                }
            }
        }));
    }
    for j in joins {
        j.join().unwrap();
    }
    assert!(!wrong.load(Ordering::Relaxed), "from_seven returned {:#x} for a hand whose cards are {:#x}", detail[0].load(Ordering::Relaxed), detail[1].load(Ordering::Relaxed));
}
