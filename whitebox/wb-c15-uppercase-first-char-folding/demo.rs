//! C15 (with C12's token rule): a set built from text contains exactly the real cards among its
//! tokens, and a token is a card iff it starts with a rank symbol (A K Q J T 0 9-2, either case)
//! followed by a suit symbol. Nothing else is a card.
use ckc_rs::cards::binary_card::{BinaryCard, BC64};

const RANKS: &str = "AKQJT098765432akqjt";

#[test]
fn only_rank_symbols_start_a_card_token() {
    // every scalar value that is not one of the documented rank symbols, followed by a real suit
    // symbol, is a non-card token: alone it builds the empty set, next to a real card it adds nothing
    let mut wrong: Vec<(char, BinaryCard)> = Vec::new();
    for cp in 0..=0x10FFFFu32 {
        let Some(c) = char::from_u32(cp) else { continue };
        if RANKS.contains(c) || c.is_whitespace() {
            continue;
        }
        let token = format!("{}♠", c);
        let got = BinaryCard::from_index(&token);
        if got != BinaryCard::BLANK {
            wrong.push((c, got));
        }
    }
    assert!(wrong.is_empty(), "non-rank characters accepted as a rank: {:x?}", wrong.iter().map(|(c, b)| (*c as u32, *b)).collect::<Vec<_>>());
}

#[test]
fn j_with_caron_is_not_a_jack() {
    // U+01F0 LATIN SMALL LETTER J WITH CARON
    let set = BinaryCard::from_index("2♣ \u{01F0}♠ 3♣");
    assert_eq!(set, BinaryCard::DEUCE_CLUBS | BinaryCard::TREY_CLUBS, "got {:#x}", set);
    assert_eq!(set.number_of_cards(), 2);
    assert!(!set.has(BinaryCard::JACK_SPADES));
}
