//! C19: slot-index selection returns the given words in the given slots —
//! `five_from_permutation(p)` is `[w[p[0]], w[p[1]], w[p[2]], w[p[3]], w[p[4]]]`, whatever else
//! has been done with the hand before.
use ckc_rs::cards::five::Five;
use ckc_rs::cards::seven::Seven;
use ckc_rs::cards::two::Two;
use ckc_rs::cards::{HandRanker, HandValidator, Permutator};
use ckc_rs::CardNumber;

fn select(words: &[u32; 7], p: [u8; 5]) -> [u32; 5] {
    [words[p[0] as usize], words[p[1] as usize], words[p[2] as usize], words[p[3] as usize], words[p[4] as usize]]
}

#[test]
fn selection_after_evaluation_keeps_slot_order() {
    // board T♠ J♠ Q♠ K♠ A♠ (in that order) behind the hole cards 2♣ 3♦
    let words = [
        CardNumber::DEUCE_CLUBS,
        CardNumber::TREY_DIAMONDS,
        CardNumber::TEN_SPADES,
        CardNumber::JACK_SPADES,
        CardNumber::QUEEN_SPADES,
        CardNumber::KING_SPADES,
        CardNumber::ACE_SPADES,
    ];
    let seven = Seven::new(Two::new(words[0], words[1]), Five::new(words[2], words[3], words[4], words[5], words[6]));
    assert_eq!(seven.to_arr(), words);

    // before any evaluation every combination reads back in slot order
    for p in Seven::FIVE_CARD_PERMUTATIONS {
        assert_eq!(seven.five_from_permutation(p).to_arr(), select(&words, p));
    }

    let (value, _best) = seven.hand_rank_value_and_hand();
    assert_eq!(value, 1); // royal flush

    // ... and after it as well
    for p in Seven::FIVE_CARD_PERMUTATIONS {
        assert_eq!(seven.five_from_permutation(p).to_arr(), select(&words, p), "five_from_permutation({:?}) after evaluating the hand", p);
        assert_eq!(Permutator::five_from_permutation(&seven, p).iter().copied().collect::<Vec<u32>>(), select(&words, p).to_vec());
    }
}
