// C19: constructing a Seven from parts and reading it back returns the given words in the given
// slots — for every caller, also when another thread of the same program builds its own hands.
// (`cargo test` builds with debug assertions, like any development build.)
use ckc_rs::cards::five::Five;
use ckc_rs::cards::seven::Seven;
use ckc_rs::cards::two::Two;
use std::sync::atomic::{AtomicBool, AtomicU64, Ordering};
use std::sync::Arc;
use std::time::{Duration, Instant};

#[test]
fn seven_from_parts_holds_the_words_it_was_given() {
    // one caller alone: right before and after the change
    for i in 0..1000u32 {
        let w = [i, i + 1, i + 2, i + 3, i + 4, i + 5, i + 6];
        let seven = Seven::new(Two::new(w[0], w[1]), Five::new(w[2], w[3], w[4], w[5], w[6]));
        assert_eq!(seven.to_arr(), w);
    }

    let stop = Arc::new(AtomicBool::new(false));
    let wrong = Arc::new(AtomicU64::new(0));
    let deadline = Instant::now() + Duration::from_secs(10);
    let threads: Vec<_> = (0..4u32)
        .map(|t| {
            let (stop, wrong) = (stop.clone(), wrong.clone());
            std::thread::spawn(move || {
                let mut n = 0u32;
                while !stop.load(Ordering::Relaxed) {
                    n = n.wrapping_add(1);
                    // every word names its caller, its call and its slot
                    let tag = |slot: u32| 0x4000_0000 | (t << 24) | ((n & 0xFFFF) << 8) | slot;
                    let w = [tag(0), tag(1), tag(2), tag(3), tag(4), tag(5), tag(6)];
                    let seven = Seven::new(Two::new(w[0], w[1]), Five::new(w[2], w[3], w[4], w[5], w[6]));
                    if seven.to_arr() != w {
                        wrong.fetch_add(1, Ordering::Relaxed);
                        stop.store(true, Ordering::Relaxed);
                    }
                    if n % 4096 == 0 && Instant::now() > deadline {
                        stop.store(true, Ordering::Relaxed);
                    }
                }
            })
        })
        .collect();
    for h in threads {
        h.join().unwrap();
    }
    assert_eq!(wrong.load(Ordering::Relaxed), 0, "a Seven built from parts came back holding another caller's words");
}
