//! C15: a set built from text contains exactly the distinct real cards among its
//! whitespace-separated tokens — for every text, whatever kind of white space separates them.
use ckc_rs::cards::binary_card::{BinaryCard, BC64};

#[test]
fn no_break_space_between_two_cards() {
    let set = BinaryCard::from_index("A♠\u{00A0}K♠");
    assert_eq!(set, BinaryCard::ACE_SPADES | BinaryCard::KING_SPADES);
}

#[test]
fn ideographic_space_and_trailing_line_separator() {
    let mut set = BinaryCard::from_index("T♦\u{3000}9♦ 8♦\u{2028}");
    assert_eq!(set.number_of_cards(), 3);
    assert_eq!(set.peel(), BinaryCard::TEN_DIAMONDS);
    assert_eq!(set.peel(), BinaryCard::NINE_DIAMONDS);
    assert_eq!(set.peel(), BinaryCard::EIGHT_DIAMONDS);
    assert_eq!(set.peel(), BinaryCard::BLANK);
}

#[test]
fn ascii_white_space_still_works() {
    assert_eq!(BinaryCard::from_index("  2c\t3c \n XX 4c  "), BinaryCard::DEUCE_CLUBS | BinaryCard::TREY_CLUBS | BinaryCard::FOUR_CLUBS);
}
