// C15: "A set built from ... text contains exactly the distinct real cards among its ... tokens".
// The property puts no bound on the size of the text: a card named by the last token of a long text is
// a member like any other.
use ckc_rs::cards::binary_card::{BinaryCard, BC64};

#[test]
fn the_last_token_of_a_long_text_is_a_member() {
    // 20,000 times the deuce of clubs (100,000 bytes), then the ace of spades
    let mut text = String::new();
    for _ in 0..20_000 {
        text.push_str("2♣ ");
    }
    text.push_str("A♠");
    let set = BinaryCard::from_index(&text);
    assert!(set.has(BinaryCard::DEUCE_CLUBS));
    assert!(set.has(BinaryCard::ACE_SPADES), "A♠ is a token of the text and must be a member");
    assert_eq!(set.number_of_cards(), 2);

    // and nothing that is not a token becomes a member: here every token is the ace of spades, the
    // king of hearts only occurs as the tail of a token ("A♠K♥" is the ace, by its first two characters)
    let mut text = String::new();
    for _ in 0..14_000 {
        text.push_str("A♠K♥ ");
    }
    let set = BinaryCard::from_index(&text);
    assert_eq!(set, BinaryCard::ACE_SPADES);
}
