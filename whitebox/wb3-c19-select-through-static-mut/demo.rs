// C19: "reading back ... by slot-index selection returns the given words in the given slots".
// Each caller owns its Seven / Six; nothing is shared between the threads. On the unchanged tree
// `five_from_permutation` reads only `self`, so this cannot fail.
use ckc_rs::cards::seven::Seven;
use ckc_rs::cards::six::Six;
use ckc_rs::cards::Permutator;
use std::sync::atomic::{AtomicBool, Ordering};
use std::sync::{Arc, Mutex};

#[test]
fn selection_returns_the_callers_own_words() {
    // sequential part: right with and without the change
    let s = Seven::from([10, 11, 12, 13, 14, 15, 16]);
    assert_eq!(s.five_from_permutation([6, 4, 2, 0, 5]).to_arr(), [16, 14, 12, 10, 15]);
    let x = Six::from([20, 21, 22, 23, 24, 25]);
    assert_eq!(x.five_from_permutation([5, 3, 1, 4, 2]).to_arr(), [25, 23, 21, 24, 22]);

    let wrong = Arc::new(AtomicBool::new(false));
    let detail = Arc::new(Mutex::new(String::new()));
    let mut joins = Vec::new();
    for t in 0..2u32 {
        let (wrong, detail) = (wrong.clone(), detail.clone());
        joins.push(std::thread::spawn(move || {
            let base = 0x4000_0000 | (t + 1) << 8; // unique tags per caller
            let words = [base, base + 1, base + 2, base + 3, base + 4, base + 5, base + 6];
            let seven = Seven::from(words);
            let idx = [6u8, 4, 2, 0, 5];
            let want = [words[6], words[4], words[2], words[0], words[5]];
            for _ in 0..20_000_000usize {
                if wrong.load(Ordering::Relaxed) {
                    return;
                }
                let got = seven.five_from_permutation(idx).to_arr();
                if got != want {
                    *detail.lock().unwrap() = format!("caller {} selected {:?} from {:x?}: got {:x?}, its own words are {:x?}", t, idx, words, got, want);
                    wrong.store(true, Ordering::Relaxed);
                    return;
                }
            }
        }));
    }
    for j in joins {
        j.join().unwrap();
    }
    assert!(!wrong.load(Ordering::Relaxed), "{}", detail.lock().unwrap());
}
