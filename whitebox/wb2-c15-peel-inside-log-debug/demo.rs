// C15: a set built from text contains exactly the distinct real cards among its tokens.
// The application below does what applications using the `log` facade do: it installs a logger
// and raises the level. Nothing else differs from the harness's way of calling the crate.
use ckc_rs::cards::binary_card::{BinaryCard, BC64};

struct Sink;

impl log::Log for Sink {
    fn enabled(&self, _: &log::Metadata) -> bool {
        true
    }
    fn log(&self, record: &log::Record) {
        // a real logger formats the record; do the same and throw the text away
        struct Null;
        impl core::fmt::Write for Null {
            fn write_str(&mut self, _: &str) -> core::fmt::Result {
                Ok(())
            }
        }
        let _ = core::fmt::write(&mut Null, *record.args());
    }
    fn flush(&self) {}
}

static SINK: Sink = Sink;

#[test]
fn from_text_keeps_every_member_when_debug_logging_is_enabled() {
    // with the facade at its default (no logger, level Off) everything is as before
    assert_eq!(BinaryCard::from_index("AS KS"), BinaryCard::ACE_SPADES | BinaryCard::KING_SPADES);

    let _ = log::set_logger(&SINK);
    log::set_max_level(log::LevelFilter::Debug);

    let set = BinaryCard::from_index("AS KS 2c");
    assert_eq!(set, BinaryCard::ACE_SPADES | BinaryCard::KING_SPADES | BinaryCard::DEUCE_CLUBS, "got {:#x}", set);
    assert!(BinaryCard::from_index("Q♦").has(BinaryCard::QUEEN_DIAMONDS));
    assert_eq!(BinaryCard::from_index("Q♦").number_of_cards(), 1);
}
