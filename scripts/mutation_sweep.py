#!/usr/bin/env python3
"""mutation_sweep.py [--jobs N] [--runs R] [--only SUBSTR] [--list]

Systematic sensitivity sweep (build-phase activity, not a registered check).
Generates several hundred single-edit mutants of the code C15 and C19 are
anchored in (non-test part of src/cards/{two..seven,binary_card}.rs), and for
each one builds the simulator against a scratch copy of the repository and runs
the seeded + directed batch of the matching property under the fast profile.

  killed    exit 1, VIOLATION with a replay file that reproduced in a fresh process
  survived  exit 0 (listed at the end: each survivor must be explained as
            equivalent with respect to the property, or the workload changes)
  invalid   mutant does not compile, or harness error

Scratch directories (with all build output) live under a mkdtemp directory and
are removed at the end. /repo is never touched.
"""
import os, re, shutil, subprocess, sys, tempfile, json, time
from concurrent.futures import ThreadPoolExecutor

VERIF = os.path.abspath(os.path.join(os.path.dirname(os.path.abspath(__file__)), ".."))
REPO = os.environ.get("CKC_REPO", "/repo")
SIZES = {"two": 2, "three": 3, "four": 4, "five": 5, "six": 6, "seven": 7}


def nontest_span(text):
    i = text.find("#[cfg(test)]")
    return len(text) if i < 0 else i


def gen_mutants():
    """yield (name, property, relpath, new_text)"""
    out = []

    def add(name, prop, rel, text, start, end, repl):
        out.append((name, prop, rel, text[:start] + repl + text[end:]))

    # ---------------- containers
    for cname, n in SIZES.items():
        rel = f"src/cards/{cname}.rs"
        text = open(os.path.join(REPO, rel)).read()
        lim = nontest_span(text)
        # 1. self.0[K] -> K-1 / K+1
        for k, m in enumerate(re.finditer(r"self\.0\[(\d)\]", text[:lim])):
            K = int(m.group(1))
            line = text.count("\n", 0, m.start()) + 1
            for alt in (K - 1, K + 1):
                if 0 <= alt < n:
                    add(f"{cname}_L{line}_slot{K}to{alt}", "C19", rel, text, m.start(1), m.end(1), str(alt))
        # 2. permutation[K]
        for m in re.finditer(r"permutation\[(\d)\]", text[:lim]):
            K = int(m.group(1))
            line = text.count("\n", 0, m.start()) + 1
            for alt in (K - 1, K + 1):
                if 0 <= alt < 5:
                    add(f"{cname}_L{line}_perm{K}to{alt}", "C19", rel, text, m.start(1), m.end(1), str(alt))
        # selection reads the wrong container slot: self.0[permutation[k] as usize] -> (.. ^ 1)
        for m in re.finditer(r"self\.0\[permutation\[(\d)\] as usize\]", text[:lim]):
            line = text.count("\n", 0, m.start()) + 1
            add(f"{cname}_L{line}_perm{m.group(1)}_clamped", "C19", rel, text, m.start(), m.end(), f"self.0[(permutation[{m.group(1)}] as usize).min({n - 2})]")
        # 6. iter(): drop first / last
        m = re.search(r"fn iter\(&self\) -> Iter<'_, CKCNumber> \{\n\s*self\.0\.iter\(\)", text[:lim])
        if m:
            s = text.find("self.0.iter()", m.start())
            add(f"{cname}_iter_skips_first", "C19", rel, text, s, s + len("self.0.iter()"), "self.0[1..].iter()")
            add(f"{cname}_iter_drops_last", "C19", rel, text, s, s + len("self.0.iter()"), f"self.0[..{n - 1}].iter()")
        # 7. to_arr reversed
        m = re.search(r"pub fn to_arr\(&self\) -> \[CKCNumber; \d\] \{\n\s*self\.0\n", text[:lim])
        if m:
            s = text.find("self.0\n", m.start())
            add(f"{cname}_to_arr_reversed", "C19", rel, text, s, s + len("self.0"), "{ let mut a = self.0; a.reverse(); a }")
        # From<[u32; N]>: tuple struct constructor gets a rotated array
        m = re.search(r"fn from\(array: \[CKCNumber; \d\]\) -> Self \{\n\s*(\w+)\(array\)", text[:lim])
        if m:
            s = text.find(f"{m.group(1)}(array)", m.start())
            add(f"{cname}_from_array_rotated", "C19", rel, text, s, s + len(f"{m.group(1)}(array)"), f"{{ let mut a = array; a.rotate_left(1); {m.group(1)}(a) }}")
            add(f"{cname}_from_array_last_two_swapped", "C19", rel, text, s, s + len(f"{m.group(1)}(array)"), f"{{ let mut a = array; a.swap({n - 1}, {n - 2}); {m.group(1)}(a) }}")
    # 3/4. argument lists: swap adjacent entries
    def swap_lines(rel, prop, header_regex, tag):
        text = open(os.path.join(REPO, rel)).read()
        lim = nontest_span(text)
        m = re.search(header_regex, text[:lim])
        if not m:
            print("pattern not found:", tag, file=sys.stderr)
            return
        body_start = m.end()
        body_end = text.find("]", body_start)
        lines = text[body_start:body_end].split("\n")
        idx = [i for i, l in enumerate(lines) if l.strip().endswith(",")]
        for a, b in zip(idx, idx[1:]):
            l2 = list(lines)
            l2[a], l2[b] = l2[b], l2[a]
            add(f"{tag}_swap_{a}_{b}", prop, rel, text, body_start, body_end, "\n".join(l2))
        # duplicate one entry over its neighbour
        for a, b in zip(idx, idx[1:]):
            l2 = list(lines)
            l2[b] = l2[a]
            add(f"{tag}_dup_{a}_over_{b}", prop, rel, text, body_start, body_end, "\n".join(l2))

    swap_lines("src/cards/six.rs", "C19", r"pub fn from_1_and_2_and_3\([^)]*\) -> Self \{\n\s*Self::from\(\[", "six_from_parts")
    swap_lines("src/cards/seven.rs", "C19", r"pub fn new\(two: Two, five: Five\) -> Self \{\n\s*Self\(\[", "seven_new")
    for rel, tag, pat in [("src/cards/two.rs", "two_new", "Self([first, second])"), ("src/cards/five.rs", "five_new", "Self([first, second, third, forth, fifth])")]:
        text = open(os.path.join(REPO, rel)).read()
        s = text.find(pat)
        names = pat[len("Self(["):-2].split(", ")
        for i in range(len(names) - 1):
            n2 = list(names)
            n2[i], n2[i + 1] = n2[i + 1], n2[i]
            add(f"{tag}_swap_{i}", "C19", rel, text, s, s + len(pat), "Self([" + ", ".join(n2) + "])")
            n3 = list(names)
            n3[i + 1] = n3[i]
            add(f"{tag}_dup_{i}", "C19", rel, text, s, s + len(pat), "Self([" + ", ".join(n3) + "])")

    # ---------------- binary_card.rs
    rel = "src/cards/binary_card.rs"
    text = open(os.path.join(REPO, rel)).read()
    lim = nontest_span(text)
    # 8. DECK adjacent swaps
    dm = re.search(r"const DECK: \[BinaryCard; 52\] = \[\n", text)
    dend = text.find("];", dm.end())
    dl = text[dm.end():dend].split("\n")
    ent = [i for i, l in enumerate(dl) if l.strip().startswith("BinaryCard::")]
    for a, b in zip(ent, ent[1:]):
        l2 = list(dl)
        l2[a], l2[b] = l2[b], l2[a]
        add(f"deck_swap_{a}_{b}", "C15", rel, text, dm.end(), dend, "\n".join(l2))
    for a in ent[::4]:
        l2 = list(dl)
        del l2[a]
        l2.insert(ent[-1], dl[ent[-1]])  # keep 52 entries: last one doubled
        add(f"deck_drop_{a}_double_last", "C15", rel, text, dm.end(), dend, "\n".join(l2))
    # 9. from_ckc arms: swap right-hand sides of adjacent arms
    arms = list(re.finditer(r"            CardNumber::(\w+) => BinaryCard::(\w+),\n", text[:lim]))
    for a, b in zip(arms, arms[1:]):
        new = text[:a.start(2)] + b.group(2) + text[a.end(2):b.start(2)] + a.group(2) + text[b.end(2):]
        out.append((f"from_ckc_swap_{a.group(1)}_{b.group(1)}", "C15", rel, new))
    for a in arms[::3]:
        add(f"from_ckc_{a.group(1)}_to_blank", "C15", rel, text, a.start(2), a.end(2), "BLANK")
    # 13. card constants: swap the values of adjacent constants
    consts = list(re.finditer(r"    const (\w+):\s+u64 = (0b[01_]+);\n", text[:lim]))
    cards = [c for c in consts if c.group(1) not in ("ALL", "OVERFLOW", "BLANK")]
    for a, b in zip(cards, cards[1:]):
        new = text[:a.start(2)] + b.group(2) + text[a.end(2):b.start(2)] + a.group(2) + text[b.end(2):]
        out.append((f"const_swap_{a.group(1)}_{b.group(1)}", "C15", rel, new))
    # 12. OVERFLOW bit flips
    ov = [c for c in consts if c.group(1) == "OVERFLOW"][0]
    val = int(ov.group(2).replace("_", ""), 2)
    for bit in range(64):
        add(f"overflow_flip_bit{bit}", "C15", rel, text, ov.start(2), ov.end(2), hex(val ^ (1 << bit)))
    # 10. from_N: delete each term but the first; swap accessor of each term with the previous one's
    for fn in ("from_two", "from_three", "from_four", "from_five", "from_six", "from_seven"):
        m = re.search(r"fn %s\(\w+: \w+\) -> BinaryCard \{\n" % fn, text[:lim])
        end = text.find("\n    }", m.end())
        body = text[m.end():end]
        terms = list(re.finditer(r"BinaryCard::from_ckc\((\w+)\.(\w+)\(\)\)", body))
        for i, t in enumerate(terms):
            if i > 0:
                # delete "| term"
                s = body.rfind("|", 0, t.start())
                add(f"{fn}_drop_term{i}", "C15", rel, text, m.end() + s, m.end() + t.end(), "")
                prev = terms[i - 1]
                add(f"{fn}_term{i}_reads_{prev.group(2)}", "C15", rel, text, m.end() + t.start(2), m.end() + t.end(2), prev.group(2))
        b2 = body.replace("|", "^", 1)
        add(f"{fn}_first_or_to_xor", "C15", rel, text, m.end(), end, b2)
        b3 = body.replace("|", "&", 1)
        add(f"{fn}_first_or_to_and", "C15", rel, text, m.end(), end, b3)
    # 11. operator mutants in the set operations and peel
    ops = [
        ("fold_in_and", "self.as_u64() | bc", "self.as_u64() & bc"),
        ("fold_in_ignores_self", "self.as_u64() | bc", "bc"),
        ("fold_in_ignores_arg", "self.as_u64() | bc", "self.as_u64()"),
        ("fold_in_masks_result", "self.as_u64() | bc", "(self.as_u64() | bc) & BinaryCard::ALL"),
        ("has_superset_test", "self.as_u64() & card == card", "self.as_u64() & card == self.as_u64()"),
        ("has_ne", "self.as_u64() & card == card", "self.as_u64() & card != card"),
        ("has_or", "self.as_u64() & card == card", "self.as_u64() | card == card"),
        ("has_blank_refused", "self.as_u64() & card == card", "card != 0 && self.as_u64() & card == card"),
        ("single_eq_0", "self.number_of_cards() == 1", "self.number_of_cards() == 0"),
        ("single_ge_1", "self.number_of_cards() == 1", "self.number_of_cards() >= 1"),
        ("single_eq_2", "self.number_of_cards() == 1", "self.number_of_cards() == 2"),
        ("valid_or", "(self.as_u64() != BinaryCard::BLANK) && ((self.as_u64()", "(self.as_u64() != BinaryCard::BLANK) || ((self.as_u64()"),
        ("valid_eq_blank", "(self.as_u64() != BinaryCard::BLANK) &&", "(self.as_u64() == BinaryCard::BLANK) &&"),
        ("valid_lt_2", ".number_of_cards()) < 1", ".number_of_cards()) < 2"),
        ("valid_checks_all_not_overflow", "self.as_u64() & BinaryCard::OVERFLOW)", "self.as_u64() & BinaryCard::ALL)"),
        ("count_zeros", "self.as_u64().count_ones()", "self.as_u64().count_zeros()"),
        ("count_low32", "self.as_u64().count_ones()", "(self.as_u64() as u32).count_ones()"),
        ("count_minus_one", "self.as_u64().count_ones()", "self.as_u64().count_ones().saturating_sub(1)"),
        ("peel_or_assign", "*self ^= bc;", "*self |= bc;"),
        ("peel_and_assign", "*self ^= bc;", "*self &= bc;"),
        ("peel_clears_all", "*self ^= bc;", "*self = 0;"),
        ("peel_ne", "if *self & bc == bc {", "if *self & bc != bc {"),
        ("peel_returns_blank", "                return bc;\n", "                return BinaryCard::BLANK;\n"),
        ("peel_returns_set", "                return bc;\n", "                return *self;\n"),
        ("peel_skips_first_deck_entry", "for bc in BinaryCard::DECK {", "for bc in BinaryCard::DECK.into_iter().skip(1) {"),
        ("peel_stops_before_last", "for bc in BinaryCard::DECK {", "for bc in BinaryCard::DECK.into_iter().take(51) {"),
        ("from_index_skips_first_token", "for s in index.split_whitespace() {", "for s in index.split_whitespace().skip(1) {"),
        ("from_index_take_7", "for s in index.split_whitespace() {", "for s in index.split_whitespace().take(7) {"),
        ("from_index_rev", "for s in index.split_whitespace() {", "for s in index.split_whitespace().rev() {"),
        ("from_index_split_comma", "for s in index.split_whitespace() {", "for s in index.split(',') {"),
        ("from_index_overwrites", "bc = bc.fold_in(BinaryCard::from_ckc(CKCNumber::from_index(s)));", "bc = BinaryCard::from_ckc(CKCNumber::from_index(s));"),
        ("from_index_starts_nonblank", "let mut bc = BinaryCard::BLANK;\n\n        for s in index", "let mut bc = BinaryCard::DEUCE_CLUBS;\n\n        for s in index"),
    ]
    for name, old, new in ops:
        c = text[:lim].count(old)
        if c != 1:
            print(f"operator mutant {name}: pattern occurs {c} times", file=sys.stderr)
            continue
        s = text.find(old)
        add(name, "C15", rel, text, s, s + len(old), new)
    return out


def worker_setup(base, k):
    d = os.path.join(base, f"w{k}")
    os.makedirs(d)
    subprocess.check_call(["git", "clone", "-q", "--no-hardlinks", REPO, os.path.join(d, "repo")])
    subprocess.check_call(["rsync", "-a", "--exclude", "target", "--exclude", ".git", "--exclude", "replays", "--exclude", "evidence", VERIF + "/", os.path.join(d, "verif") + "/"])
    ct = os.path.join(d, "verif", "sim", "Cargo.toml")
    s = open(ct).read().replace('path = "/repo"', f'path = "{d}/repo"')
    open(ct, "w").write(s)
    return d


def run_one(d, mutant, runs):
    name, prop, rel, new_text = mutant
    path = os.path.join(d, "repo", rel)
    orig = open(path).read()
    open(path, "w").write(new_text)
    env = dict(os.environ, CARGO_NET_OFFLINE="true")
    try:
        b = subprocess.run(["cargo", "build", "--offline", "--quiet", "--profile", "simfast"], cwd=os.path.join(d, "verif", "sim"), env=env, capture_output=True, text=True)
        if b.returncode != 0:
            return (name, prop, "invalid", "does not compile: " + (b.stderr.strip().splitlines() or ["?"])[0][:120])
        exe = os.path.join(d, "verif", "sim", "target", "simfast", "ckc-sim")
        outj = os.path.join(d, "out.json")
        shutil.rmtree(os.path.join(d, "verif", "replays"), ignore_errors=True)
        r = subprocess.run([exe, "run", "--prop", prop, "--runs", str(runs), "--workers", "4", "--profile", "simfast", "--root", os.path.join(d, "verif"), "--out", outj], capture_output=True, text=True)
        if r.returncode == 1:
            j = json.load(open(outj))
            v = j["violations"][0]
            return (name, prop, "killed", f"{v.get('class')} first_seeded={v.get('first_failing_seeded_run')} origin={v.get('origin', '')[:60]}")
        if r.returncode == 0:
            return (name, prop, "survived", "")
        return (name, prop, "invalid", "harness: " + r.stderr.strip()[:160])
    finally:
        open(path, "w").write(orig)


def main():
    jobs, runs, only, list_only = 4, 300000, None, False
    a = sys.argv[1:]
    while a:
        if a[0] == "--jobs":
            jobs = int(a[1]); a = a[2:]
        elif a[0] == "--runs":
            runs = int(a[1]); a = a[2:]
        elif a[0] == "--only":
            only = a[1]; a = a[2:]
        elif a[0] == "--list":
            list_only = True; a = a[1:]
        else:
            print(__doc__); sys.exit(2)
    muts = gen_mutants()
    if only:
        muts = [m for m in muts if only in m[0]]
    # drop accidental no-ops
    muts = [m for m in muts if open(os.path.join(REPO, m[2])).read() != m[3]]
    if list_only:
        for m in muts:
            print(m[1], m[0])
        print(len(muts), "mutants")
        return
    base = tempfile.mkdtemp(prefix="ckc-sweep-")
    t0 = time.time()
    results = []
    try:
        dirs = [worker_setup(base, k) for k in range(jobs)]
        chunks = [muts[k::jobs] for k in range(jobs)]

        def work(k):
            res = []
            for m in chunks[k]:
                r = run_one(dirs[k], m, runs)
                res.append(r)
                print(f"{r[2]:9s} {r[1]} {r[0]}  {r[3]}", flush=True)
            return res

        with ThreadPoolExecutor(max_workers=jobs) as ex:
            for res in ex.map(work, range(jobs)):
                results.extend(res)
    finally:
        shutil.rmtree(base, ignore_errors=True)
    killed = [r for r in results if r[2] == "killed"]
    surv = [r for r in results if r[2] == "survived"]
    inv = [r for r in results if r[2] == "invalid"]
    print()
    print(f"SUMMARY mutants={len(results)} killed={len(killed)} survived={len(surv)} invalid={len(inv)} seeded_runs_per_mutant={runs} wall_s={time.time() - t0:.0f}")
    for r in surv:
        print("SURVIVED", r[1], r[0])
    for r in inv:
        print("INVALID ", r[1], r[0], r[3])


if __name__ == "__main__":
    main()
