#!/usr/bin/env bash
# sensitivity.sh [--tests] [--expect-held] [patch files...]
# Build-phase activity (DESIGN §3.9), not a registered check. For each patch:
# apply it to a scratch copy of /repo, run the matching check from a scratch copy
# of /verif that points at the scratch repo, expect exit 1 + a VIOLATION line whose
# replay file reproduces, optionally run the repository's own suite, then revert.
# The scratch directory (with all build output) is removed on exit.
# Patch names start with c15_/c19_, or live in seeded/<name>/patch.diff with a meta.json
# naming the property.
set -u
VERIF="$(cd "$(dirname "${BASH_SOURCE[0]}")/.." && pwd)"
REPO="${CKC_REPO:-/repo}"
TESTS=0; EXPECT=caught
while [ $# -gt 0 ]; do case "$1" in
  --tests) TESTS=1; shift;;
  --expect-held) EXPECT=held; shift;;   # for changes under which the property still holds: any alarm is a false alarm
  *) break;; esac; done
if [ $# -eq 0 ]; then set -- "$VERIF"/mutants/*.diff; fi
SCR="$(mktemp -d "${TMPDIR:-/tmp}/ckc-sens.XXXXXX")"
trap 'rm -rf "$SCR"' EXIT
git clone -q --no-hardlinks "$REPO" "$SCR/repo" || exit 2
rsync -a --exclude target --exclude .git --exclude replays --exclude evidence "$VERIF"/ "$SCR/verif/"
sed -i "s#path = \"/repo\"#path = \"$SCR/repo\"#" "$SCR/verif/sim/Cargo.toml"
export CKC_REPO="$SCR/repo"
printf '%-44s %-5s %-8s %-7s %-6s %s\n' patch prop verdict replay suite "class / first violation"
fail=0
for patch in "$@"; do
  patch="$(readlink -f "$patch")"
  name="$(basename "$patch" .diff)"
  prop=""
  case "$name" in c15_*) prop=C15;; c19_*) prop=C19;; esac
  if [ -z "$prop" ]; then
    meta="$(dirname "$patch")/meta.json"
    name="$(basename "$(dirname "$patch")")"
    [ -f "$meta" ] && prop="$(jq -r '.property' "$meta")"
  fi
  [ -n "${PROP_OVERRIDE:-}" ] && prop="$PROP_OVERRIDE"
  [ -n "$prop" ] || { echo "$name: cannot tell which property"; fail=1; continue; }
  if ! git -C "$SCR/repo" apply "$patch" 2>"$SCR/apply.err"; then
    printf '%-44s %-5s %-8s\n' "$name" "$prop" "NOAPPLY"; fail=1; continue
  fi
  (cd "$SCR/verif" && ./check.sh "$prop" quick) >"$SCR/check.log" 2>&1
  rc=$?
  vline="$(grep -m1 '^VIOLATION ' "$SCR/check.log")"
  class="$(grep -m1 '^  class=' "$SCR/check.log" | sed 's/^  //' | cut -c1-400)"
  verdict=MISSED; rp="-"
  if [ $rc -eq 1 ] && [ -n "$vline" ]; then
    verdict=caught
    file="${vline##*replay=}"
    (cd "$SCR/verif" && ./check.sh replay "$file") >"$SCR/replay.log" 2>&1
    if [ $? -eq 1 ] && grep -q 'reproduces the recorded violation exactly (class.*): yes' "$SCR/replay.log"; then rp=yes; else rp=NO; fail=1; fi
  elif [ $rc -eq 2 ]; then
    verdict=HARNESS; class="$(grep -m1 HARNESS-ERROR "$SCR/check.log" | cut -c1-150)"; fail=1
  elif [ $rc -eq 0 ]; then
    [ "$EXPECT" = held ] && verdict=held || fail=1
  else
    fail=1
  fi
  [ "$EXPECT" = held ] && [ "$verdict" = caught ] && { verdict=FALSE-ALARM; fail=1; }
  suite="-"
  if [ $TESTS -eq 1 ]; then
    if (cd "$SCR/repo" && CARGO_TARGET_DIR="$SCR/testtarget" cargo test --offline --quiet --workspace --no-fail-fast) >"$SCR/test.log" 2>&1; then suite=green; else suite=red; fi
  fi
  printf '%-44s %-5s %-8s %-7s %-6s %s\n' "$name" "$prop" "$verdict" "$rp" "$suite" "$class"
  git -C "$SCR/repo" checkout -q -- .
  rm -rf "$SCR/verif/replays"
done
exit $fail
