#!/usr/bin/env bash
# determinism.sh [quick|thorough]   (DESIGN §3.8; build-phase activity and part of the thorough tier in miniature)
# Every seed is run in separate processes under both profiles at worker counts 1, 5 and 16,
# twice each; the per-run digest files must be byte-identical. Any difference is exit 2.
set -u
VERIF="$(cd "$(dirname "${BASH_SOURCE[0]}")/.." && pwd)"
tier="${1:-quick}"
case "$tier" in quick) SEEDS=64; RUNS=2000;; thorough) SEEDS=256; RUNS=20000;; *) echo "usage: determinism.sh [quick|thorough]"; exit 2;; esac
"$VERIF/check.sh" setup >/dev/null || exit 2
OUT="$VERIF/sim/target/determinism"; rm -rf "$OUT"; mkdir -p "$OUT"
bad=0; compared=0
one() { # prop seed
  local prop=$1 seed=$2 ref="" f
  for prof in simfast simchk; do for w in 1 5 16; do for rep in a b; do
    f="$OUT/$prop-$seed-$prof-$w-$rep.bin"
    "$VERIF/sim/target/$prof/ckc-sim" run --prop "$prop" --seed "$seed" --runs "$RUNS" --workers "$w" --profile "$prof" --root "$VERIF" --out /dev/null --dump-digests "$f" >/dev/null 2>&1 || { echo "run failed: $prop seed=$seed $prof w=$w"; return 1; }
    if [ -z "$ref" ]; then ref="$f"; elif ! cmp -s "$ref" "$f"; then echo "DIFFERENT: $prop seed=$seed $prof workers=$w rep=$rep"; return 1; fi
  done; done; done
  rm -f "$OUT/$prop-$seed-"*.bin
  return 0
}
export -f one; export VERIF OUT RUNS
for prop in C15 C19; do
  seq 1 "$SEEDS" | awk -v p="$prop" '{print p, 1000003*$1+7}' | xargs -P 4 -n 2 bash -c 'one "$0" "$1" || exit 255' || bad=1
  compared=$((compared + SEEDS*12))
done
rm -rf "$OUT"
if [ $bad -ne 0 ]; then echo "HARNESS-ERROR: determinism check failed"; exit 2; fi
echo "determinism: $compared process runs ($SEEDS seeds x 2 properties x 2 profiles x 3 worker counts x 2 repeats, $RUNS runs each) all byte-identical per seed"
