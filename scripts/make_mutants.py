#!/usr/bin/env python3
"""Regenerates /verif/mutants/*.diff from a table of one-line edits (DESIGN 3.9).
Works on a scratch copy of /repo; never touches /repo itself."""
import os, shutil, subprocess, sys, tempfile

REPO = os.environ.get("CKC_REPO", "/repo")
OUT = os.path.join(os.path.dirname(os.path.abspath(__file__)), "..", "mutants")

M = [
 # (name, property, file, old, new)
 ("c19_five_set_third_writes_slot3", "C19", "src/cards/five.rs",
  "pub fn set_third(&mut self, card_number: CKCNumber) {\n        self.0[2] = card_number;",
  "pub fn set_third(&mut self, card_number: CKCNumber) {\n        self.0[3] = card_number;"),
 ("c19_three_second_reads_slot2", "C19", "src/cards/three.rs",
  "pub fn second(&self) -> CKCNumber {\n        self.0[1]", "pub fn second(&self) -> CKCNumber {\n        self.0[2]"),
 ("c19_seven_new_swaps_five_first_second", "C19", "src/cards/seven.rs",
  "            five.first(),\n            five.second(),", "            five.second(),\n            five.first(),"),
 ("c19_six_from_parts_one_last", "C19", "src/cards/six.rs",
  "            one,\n            two.first(),\n            two.second(),\n            three.first(),\n            three.second(),\n            three.third(),",
  "            two.first(),\n            two.second(),\n            three.first(),\n            three.second(),\n            three.third(),\n            one,"),
 ("c19_six_select_fifth_uses_perm3", "C19", "src/cards/six.rs",
  "self.0[permutation[4] as usize],", "self.0[permutation[3] as usize],"),
 ("c19_seven_select_index_mod6", "C19", "src/cards/seven.rs",
  "self.0[permutation[2] as usize],", "self.0[(permutation[2] % 6) as usize],"),
 ("c19_four_to_arr_sorted", "C19", "src/cards/four.rs",
  "pub fn to_arr(&self) -> [CKCNumber; 4] {\n        self.0", "pub fn to_arr(&self) -> [CKCNumber; 4] {\n        self.sort().0"),
 ("c19_seven_iter_six_items", "C19", "src/cards/seven.rs",
  "fn iter(&self) -> Iter<'_, CKCNumber> {\n        self.0.iter()", "fn iter(&self) -> Iter<'_, CKCNumber> {\n        self.0[..6].iter()"),
 ("c19_two_set_second_filters", "C19", "src/cards/two.rs",
  "self.0[1] = card_number;", "self.0[1] = CardNumber::filter(card_number);"),
 ("c19_five_set_fifth_skips_if_present", "C19", "src/cards/five.rs",
  "self.0[4] = card_number;", "if !self.0.contains(&card_number) {\n            self.0[4] = card_number;\n        }"),
 ("c19_six_set_sixth_masks_flags", "C19", "src/cards/six.rs",
  "self.0[5] = card_number;", "self.0[5] = card_number & 536_870_911;"),
 ("c19_two_from_ref_swaps", "C19", "src/cards/two.rs",
  "Two(*array)", "Two([array[1], array[0]])"),
 ("c15_peel_scans_reverse", "C15", "src/cards/binary_card.rs",
  "for bc in BinaryCard::DECK {\n            if *self & bc == bc {", "for bc in BinaryCard::DECK.into_iter().rev() {\n            if *self & bc == bc {"),
 ("c15_peel_does_not_clear", "C15", "src/cards/binary_card.rs",
  "                *self ^= bc;\n", ""),
 ("c15_deck_adjacent_swapped", "C15", "src/cards/binary_card.rs",
  "        BinaryCard::NINE_HEARTS,\n        BinaryCard::EIGHT_HEARTS,\n", "        BinaryCard::EIGHT_HEARTS,\n        BinaryCard::NINE_HEARTS,\n"),
 ("c15_deck_entry_duplicated", "C15", "src/cards/binary_card.rs",
  "        BinaryCard::SIX_DIAMONDS,\n        BinaryCard::FIVE_DIAMONDS,\n", "        BinaryCard::SIX_DIAMONDS,\n        BinaryCard::SIX_DIAMONDS,\n"),
 ("c15_has_tests_intersection", "C15", "src/cards/binary_card.rs",
  "self.as_u64() & card == card", "self.as_u64() & card != 0"),
 ("c15_fold_in_xor", "C15", "src/cards/binary_card.rs",
  "self.as_u64() | bc", "self.as_u64() ^ bc"),
 ("c15_overflow_mask_loses_bit52", "C15", "src/cards/binary_card.rs",
  "const OVERFLOW:       u64 = 0b1111_1111_1111_0000", "const OVERFLOW:       u64 = 0b1111_1111_1110_0000"),
 ("c15_is_valid_drops_nonempty", "C15", "src/cards/binary_card.rs",
  "(self.as_u64() != BinaryCard::BLANK) && ((self.as_u64() & BinaryCard::OVERFLOW).number_of_cards()) < 1",
  "((self.as_u64() & BinaryCard::OVERFLOW).number_of_cards()) < 1"),
 ("c15_is_single_le_one", "C15", "src/cards/binary_card.rs",
  "self.number_of_cards() == 1", "self.number_of_cards() <= 1"),
 ("c15_from_six_omits_sixth", "C15", "src/cards/binary_card.rs",
  "            | BinaryCard::from_ckc(six.fifth())\n            | BinaryCard::from_ckc(six.sixth())", "            | BinaryCard::from_ckc(six.fifth())"),
 ("c15_from_index_stops_at_noncard", "C15", "src/cards/binary_card.rs",
  "            bc = bc.fold_in(BinaryCard::from_ckc(CKCNumber::from_index(s)));",
  "            let c = BinaryCard::from_ckc(CKCNumber::from_index(s));\n            if c == BinaryCard::BLANK {\n                break;\n            }\n            bc = bc.fold_in(c);"),
 ("c15_count_masks_short_all", "C15", "src/cards/binary_card.rs",
  "self.as_u64().count_ones()", "(self.as_u64() & (BinaryCard::ALL >> 1)).count_ones()"),
]

def main():
    os.makedirs(OUT, exist_ok=True)
    tmp = tempfile.mkdtemp(prefix="ckc-mut-")
    try:
        work = os.path.join(tmp, "repo")
        subprocess.check_call(["git", "clone", "-q", "--no-hardlinks", REPO, work])
        for name, prop, path, old, new in M:
            p = os.path.join(work, path)
            s = open(p).read()
            if s.count(old) != 1:
                print(f"{name}: pattern occurs {s.count(old)} times in {path}", file=sys.stderr); sys.exit(1)
            open(p, "w").write(s.replace(old, new))
            d = subprocess.check_output(["git", "-C", work, "diff"]).decode()
            open(os.path.join(OUT, f"{name}.diff"), "w").write(d)
            subprocess.check_call(["git", "-C", work, "checkout", "-q", "--", "."])
            print("wrote", name)
    finally:
        shutil.rmtree(tmp, ignore_errors=True)

if __name__ == "__main__":
    main()
