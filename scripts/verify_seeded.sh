#!/usr/bin/env bash
# verify_seeded.sh <candidate dir with patch.diff + demo.rs> ...
# Confirms, in a scratch worktree of /repo, that a candidate seeded change
#  - applies, compiles, and keeps the repository's own suite green, and
#  - its demonstration passes on the pristine tree and fails with the change.
# Prints one line per candidate; the worktree and its build output are removed on exit.
set -u
REPO="${CKC_REPO:-/repo}"
WT="$(mktemp -d "${TMPDIR:-/tmp}/ckc-verify.XXXXXX")"
trap 'git -C "$REPO" worktree remove --force "$WT/wt" 2>/dev/null; rm -rf "$WT"' EXIT
git -C "$REPO" worktree add --detach -q "$WT/wt" HEAD || exit 2
export CARGO_NET_OFFLINE=true CARGO_TARGET_DIR="$WT/target"
cd "$WT/wt"
printf '%-28s %-8s %-12s %-14s %-12s\n' candidate applies suite demo_pristine demo_patched
for d in "$@"; do
  d="$(readlink -f "$d")"; name="$(basename "$(dirname "$(dirname "$d")")")-$(basename "$d")"
  [ -f "$d/meta.json" ] && name="$(basename "$d")"
  git checkout -q -- . ; rm -rf tests
  mkdir -p tests; cp "$d/demo.rs" tests/demo.rs
  if cargo test --offline --quiet --test demo >"$WT/demo0.log" 2>&1; then p0=pass; else p0=FAIL; fi
  rm -rf tests
  if git apply "$d/patch.diff" 2>/dev/null; then ap=yes; else printf '%-28s %-8s\n' "$name" NO; continue; fi
  if cargo test --offline --quiet --workspace --no-fail-fast >"$WT/suite.log" 2>&1; then s="green($(grep -Eo '[0-9]+ passed' "$WT/suite.log" | awk '{n+=$1} END{print n}'))"; else s=RED; fi
  mkdir -p tests; cp "$d/demo.rs" tests/demo.rs
  if cargo test --offline --quiet --test demo >"$WT/demo1.log" 2>&1; then p1=PASS; else p1=fails; fi
  rm -rf tests; git checkout -q -- .
  printf '%-28s %-8s %-12s %-14s %-12s\n' "$name" "$ap" "$s" "$p0" "$p1"
done
