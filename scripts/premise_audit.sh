#!/usr/bin/env bash
# Re-checks, on the current tree, the facts the not-applicable verdicts rest on
# (DESIGN §1). Prints NOTE: lines; never changes an exit code.
REPO="${CKC_REPO:-/repo}"
cd "$REPO" 2>/dev/null || { echo "NOTE: premise audit skipped: $REPO not found"; exit 0; }
# non-test source = everything before the first #[cfg(test)] of each file
nontest() { awk 'FNR==1{t=0} /#\[cfg\(test\)\]/{t=1} !t{print FILENAME":"FNR":"$0}' src/*.rs src/*/*.rs; }
hits=$(nontest | grep -E '\bunsafe\b|\bstatic\b|UnsafeCell|RefCell|\bCell<|Atomic[A-Z]|core::sync|std::|extern crate std|\bthread\b|Instant|SystemTime|Duration|Mutex|RwLock|OnceCell|OnceLock|Lazy|alloc::' | grep -vE "^[^:]+:[0-9]+:\s*//|&'static str|extern crate alloc" )
if [ -n "$hits" ]; then
  echo "NOTE: premise audit: the source now contains items the design assumed absent (shared state, threads, time, allocation)."
  echo "NOTE: the not-applicable verdicts in MANIFEST.json were given for a tree without them and need revisiting:"
  echo "$hits" | head -20 | sed 's/^/NOTE:   /'
fi
deps=$(sed -n '/^\[dependencies\]/,/^\[/p' Cargo.toml | grep -E '^[a-zA-Z0-9_-]+ *=' | sed 's/ *=.*//' | sort | tr '\n' ' ')
if [ "$deps" != "log serde strum " ]; then
  echo "NOTE: premise audit: [dependencies] changed (now: $deps); a new dependency may bring threads, I/O or allocation with it."
fi
exit 0
