#!/usr/bin/env bash
# check.sh <C15|C19> <quick|thorough>     run one property check
# check.sh replay <file>                  re-execute a replay file
# check.sh setup                          build both harness profiles
#
# exit 0  property held on everything explored
# exit 1  violation (a line "VIOLATION property=<id> replay=<path>" is printed)
# exit 2  harness trouble (build failure, non-reproducing replay, digest mismatch); never dressed as a violation
set -u
ROOT="$(cd "$(dirname "${BASH_SOURCE[0]}")" && pwd)"
SIM="$ROOT/sim"
export CARGO_NET_OFFLINE=true
FAST="$SIM/target/simfast/ckc-sim"
CHK="$SIM/target/simchk/ckc-sim"
# processes that execute crate code run without address-space randomisation (see sim.rs child_command)
NOASLR=""
if [ -x /usr/bin/setarch ] && [ -z "${CKC_SIM_NO_SETARCH:-}" ] && /usr/bin/setarch "$(uname -m)" -R true 2>/dev/null; then
  NOASLR="setarch $(uname -m) -R"
else
  export CKC_SIM_NO_SETARCH=1   # not there, or the sandbox refuses personality(ADDR_NO_RANDOMIZE)
fi

build() {
  # Rebuilds ckc-rs from the current working tree (path dependency) under both profiles.
  # cargo judges the freshness of a path dependency by modification time alone; a tree that was
  # changed and then restored with older time stamps (cp -p, rsync -a, tar) would keep the binaries
  # of the changed tree. So the *content* of the repository's sources is compared with a stamp, and
  # on any difference the crate's build output is discarded first.
  local log="$SIM/target/build.log" r stamp now
  mkdir -p "$SIM/target"
  r="$(repo_path)"
  stamp="$SIM/target/repo-content.stamp"
  now="$( (cd "$r" && find src Cargo.toml Cargo.lock -type f 2>/dev/null | LC_ALL=C sort | xargs sha256sum 2>/dev/null) | sha256sum | cut -d' ' -f1)"
  if [ ! -f "$stamp" ] || [ "$(cat "$stamp")" != "$now" ]; then
    for prof in simfast simchk; do
      (cd "$SIM" && cargo clean --offline --quiet -p ckc-rs --profile "$prof") >/dev/null 2>&1 || true
    done
    rm -f "$stamp"
  fi
  for prof in simfast simchk; do
    if ! (cd "$SIM" && cargo build --offline --quiet --profile "$prof") >"$log" 2>&1; then
      echo "HARNESS-ERROR: cargo build --profile $prof failed (log: $log)" >&2
      tail -n 40 "$log" >&2
      return 2
    fi
  done
  echo "$now" > "$stamp"
  return 0
}

# Where the harness looks for the repository (the path dependency in sim/Cargo.toml).
repo_path() { sed -n 's/^ckc-rs *= *{ *path *= *"\([^"]*\)".*/\1/p' "$SIM/Cargo.toml" | head -n1; }

# Does the non-test source use atomics? (Only then is there anything for a thread scheduler to interleave.)
has_atomics() {
  local r; r="$(repo_path)"
  awk 'FNR==1{t=0} /#\[cfg\(test\)\]/{t=1} !t{print}' "$r"/src/*.rs "$r"/src/*/*.rs 2>/dev/null | grep -q 'sync::atomic'
}

# Shadow build for the concurrent phase (DESIGN 10.13): a copy of the repository in which
# core::sync::atomic is shuttle::sync::atomic, and the simulator built against it with --features conc.
CONC="$SIM/target/conc"
CONCBIN="$CONC/sim/target/release/ckc-sim"
conc_build() {
  local r; r="$(repo_path)"
  mkdir -p "$CONC/ckc-rs" "$CONC/sim/.cargo" || return 1
  rsync -a --delete --exclude target --exclude .git "$r"/ "$CONC/ckc-rs/" || return 1
  find "$CONC/ckc-rs" -type f -exec touch {} +   # rsync keeps time stamps; cargo must see the copy as new
  find "$CONC/ckc-rs/src" -name '*.rs' -print0 | xargs -0 sed -i 's/core::sync::atomic/shuttle::sync::atomic/g; s/core::hint::spin_loop/shuttle::hint::spin_loop/g'
  grep -q '^shuttle' "$CONC/ckc-rs/Cargo.toml" || sed -i 's/^\[dependencies\]$/[dependencies]\nshuttle = "0.9.3"/' "$CONC/ckc-rs/Cargo.toml"
  rsync -a --delete "$SIM/src/" "$CONC/sim/src/" || return 1
  cat > "$CONC/sim/Cargo.toml" <<'TOML'
[package]
name = "ckc-sim"
version = "0.1.0"
edition = "2021"
publish = false
[workspace]
[features]
conc = []
[dependencies]
ckc-rs = { path = "../ckc-rs" }
shuttle = "0.9.3"
[profile.release]
panic = "unwind"
debug = false
TOML
  printf '[net]\noffline = true\n' > "$CONC/sim/.cargo/config.toml"
  cp "$SIM/conc.Cargo.lock" "$CONC/sim/Cargo.lock" || return 1
  (cd "$CONC/sim" && cargo build --offline --quiet --release --features conc) >"$SIM/target/conc-build.log" 2>&1
}

case "${1:-}" in
  setup)
    build || exit 2
    "$ROOT/scripts/premise_audit.sh" || true
    "$FAST" selftest || exit 2
    echo "ckc-sim built: $FAST $CHK"
    exit 0
    ;;
  replay)
    [ $# -ge 2 ] || { echo "usage: check.sh replay <file>" >&2; exit 2; }
    build || exit 2
    mode="$(jq -r '.mode // "history"' "$2" 2>/dev/null)"
    if [ "$mode" = "shuttle-schedule" ] || [ "$mode" = "shuttle-lane" ]; then
      # a concurrent-phase replay: needs the shadow build of the current tree
      prop="$(jq -r '.property_id' "$2")"
      if ! has_atomics; then echo "REPLAY-RESULT no-violation (the current tree has no atomics: nothing to schedule)"; exit 0; fi
      conc_build || { echo "HARNESS-ERROR: shadow build failed (log: $SIM/target/conc-build.log)" >&2; exit 2; }
      if [ "$mode" = "shuttle-schedule" ]; then
        $NOASLR "$CONCBIN" conc-replay --prop "$prop" --schedule "$(jq -r '.schedule_file' "$2")" | tee "$SIM/target/run/replay-out.txt"; rc=${PIPESTATUS[0]}
        grep -q "REPLAY-RESULT class=$(jq -r '.expected.class' "$2") " "$SIM/target/run/replay-out.txt" && echo "reproduces the recorded violation exactly (class; the schedule is shuttle's): yes"
      else
        tmp="$SIM/target/run/replay-lane.json"; mkdir -p "$SIM/target/run"
        $NOASLR "$CONCBIN" conc-lane --prop "$prop" --seed "$(jq -r '.verif_seed' "$2")" --lane "$(jq -r '.lane' "$2")" --iterations "$(jq -r '.iterations' "$2")" --dir "$SIM/target/run/replay-sched" --out "$tmp" >/dev/null 2>&1
        if [ "$(jq -r '.failed' "$tmp")" = true ]; then
          echo "REPLAY-RESULT class=$(jq -r '.violation.class' "$tmp") step=$(jq -r '.violation.step' "$tmp") digest=0x0"; jq '.violation' "$tmp"; rc=1
          [ "$(jq -r '.violation.class' "$tmp")" = "$(jq -r '.expected.class' "$2")" ] && echo "reproduces the recorded violation exactly (class; the whole lane was re-run from its seed): yes"
        else echo "REPLAY-RESULT no-violation"; rc=0; fi
      fi
      if [ $rc -eq 1 ]; then
        want="$(jq -r '.expected.class' "$2")"
        echo "VIOLATION property=$prop replay=$2" > "$SIM/target/run/replay-vline.txt"
        # the lines above carry the class that failed this time
        echo "expected class: $want"
        cat "$SIM/target/run/replay-vline.txt"
      fi
      exit $rc
    fi
    $NOASLR "$FAST" replay "$2"
    rc=$?
    if [ $rc -le 1 ] && [ -x "$CHK" ]; then
      echo "--- same file under the overflow-checked profile:"
      $NOASLR "$CHK" replay "$2" --machine
      rc2=$?
      [ $rc2 -gt $rc ] && rc=$rc2
    fi
    exit $rc
    ;;
  C15|C19)
    prop="$1"; tier="${2:-${VERIF_TIER:-quick}}"
    case "$tier" in quick|thorough) ;; *) echo "usage: check.sh <C15|C19> <quick|thorough>" >&2; exit 2;; esac
    "$ROOT/scripts/premise_audit.sh" || true
    build || exit 2
    concargs=()
    if has_atomics; then
      # the tree has process-wide atomics: put them behind shuttle's scheduler and explore callers' interleavings
      rep="$SIM/target/run/$prop-$tier-conc-$$.json"; mkdir -p "$SIM/target/run"; rm -f "$rep"
      if conc_build; then
        iters=15000; secs=60; [ "$tier" = thorough ] && { iters=300000; secs=900; }
        "$CONCBIN" conc --prop "$prop" --root "$ROOT" --iterations "$iters" --max-secs "$secs" --out "$rep" >/dev/null 2>"$SIM/target/conc-run.log"
        [ -f "$rep" ] && concargs=(--conc-report "$rep")
      else
        echo "NOTE: concurrent phase skipped: the shadow build with shuttle atomics failed (log: $SIM/target/conc-build.log)"
      fi
    fi
    "$FAST" check --prop "$prop" --tier "$tier" --root "$ROOT" --other-bin "$CHK" "${concargs[@]}"
    rc=$?
    [ -n "${rep:-}" ] && rm -f "$rep"
    exit $rc
    ;;
  *)
    echo "usage: check.sh <C15|C19> <quick|thorough> | replay <file> | setup" >&2
    exit 2
    ;;
esac
