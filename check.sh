#!/usr/bin/env bash
# check.sh <C15|C19> <quick|thorough>     run one property check
# check.sh replay <file>                  re-execute a replay file
# check.sh setup                          build both harness profiles
#
# exit 0  property held on everything explored
# exit 1  violation (a line "VIOLATION property=<id> replay=<path>" is printed)
# exit 2  harness trouble (build failure, non-reproducing replay, digest mismatch); never dressed as a violation
set -u
ROOT="$(cd "$(dirname "${BASH_SOURCE[0]}")" && pwd)"
SIM="$ROOT/sim"
export CARGO_NET_OFFLINE=true
FAST="$SIM/target/simfast/ckc-sim"
CHK="$SIM/target/simchk/ckc-sim"

build() {
  # Rebuilds ckc-rs from the current working tree (path dependency) under both profiles.
  local log="$SIM/target/build.log"
  mkdir -p "$SIM/target"
  for prof in simfast simchk; do
    if ! (cd "$SIM" && cargo build --offline --quiet --profile "$prof") >"$log" 2>&1; then
      echo "HARNESS-ERROR: cargo build --profile $prof failed (log: $log)" >&2
      tail -n 40 "$log" >&2
      return 2
    fi
  done
  return 0
}

case "${1:-}" in
  setup)
    build || exit 2
    "$ROOT/scripts/premise_audit.sh" || true
    "$FAST" selftest || exit 2
    echo "ckc-sim built: $FAST $CHK"
    exit 0
    ;;
  replay)
    [ $# -ge 2 ] || { echo "usage: check.sh replay <file>" >&2; exit 2; }
    build || exit 2
    "$FAST" replay "$2"
    rc=$?
    if [ $rc -le 1 ] && [ -x "$CHK" ]; then
      echo "--- same file under the overflow-checked profile:"
      "$CHK" replay "$2" --machine
      rc2=$?
      [ $rc2 -gt $rc ] && rc=$rc2
    fi
    exit $rc
    ;;
  C15|C19)
    prop="$1"; tier="${2:-${VERIF_TIER:-quick}}"
    case "$tier" in quick|thorough) ;; *) echo "usage: check.sh <C15|C19> <quick|thorough>" >&2; exit 2;; esac
    "$ROOT/scripts/premise_audit.sh" || true
    build || exit 2
    "$FAST" check --prop "$prop" --tier "$tier" --root "$ROOT" --other-bin "$CHK"
    exit $?
    ;;
  *)
    echo "usage: check.sh <C15|C19> <quick|thorough> | replay <file> | setup" >&2
    exit 2
    ;;
esac
