#!/usr/bin/env bash
# check.sh <C15|C19> <quick|thorough>     run one property check
# check.sh replay <file>                  re-execute a replay file
# check.sh setup                          build both harness profiles
#
# exit 0  property held on everything explored
# exit 1  violation (a line "VIOLATION property=<id> replay=<path>" is printed)
# exit 2  harness trouble (build failure, non-reproducing replay, digest mismatch); never dressed as a violation
set -u
ROOT="$(cd "$(dirname "${BASH_SOURCE[0]}")" && pwd)"
SIM="$ROOT/sim"
export CARGO_NET_OFFLINE=true
FAST="$SIM/target/simfast/ckc-sim"
CHK="$SIM/target/simchk/ckc-sim"
# processes that execute crate code run without address-space randomisation (see sim.rs child_command)
NOASLR=""
if [ -x /usr/bin/setarch ] && [ -z "${CKC_SIM_NO_SETARCH:-}" ] && /usr/bin/setarch "$(uname -m)" -R true 2>/dev/null; then
  NOASLR="setarch $(uname -m) -R"
else
  export CKC_SIM_NO_SETARCH=1   # not there, or the sandbox refuses personality(ADDR_NO_RANDOMIZE)
fi

build() {
  # Rebuilds ckc-rs from the current working tree (path dependency) under both profiles.
  # cargo judges the freshness of a path dependency by modification time alone; a tree that was
  # changed and then restored with older time stamps (cp -p, rsync -a, tar) would keep the binaries
  # of the changed tree. So the *content* of the repository's sources is compared with a stamp, and
  # on any difference the crate's build output is discarded first.
  local log="$SIM/target/build.log" r stamp now
  mkdir -p "$SIM/target"
  r="$(repo_path)"
  stamp="$SIM/target/repo-content.stamp"
  now="$( (cd "$r" && find src Cargo.toml Cargo.lock -type f 2>/dev/null | LC_ALL=C sort | xargs sha256sum 2>/dev/null) | sha256sum | cut -d' ' -f1)"
  if [ ! -f "$stamp" ] || [ "$(cat "$stamp")" != "$now" ]; then
    for prof in simfast simchk; do
      (cd "$SIM" && cargo clean --offline --quiet -p ckc-rs --profile "$prof") >/dev/null 2>&1 || true
    done
    [ -d "$SIM/target/native" ] && (cd "$SIM" && CARGO_TARGET_DIR="$SIM/target/native" cargo clean --offline --quiet -p ckc-rs --profile simfast) >/dev/null 2>&1
    rm -f "$stamp"
  fi
  for prof in simfast simchk; do
    if ! (cd "$SIM" && cargo build --offline --quiet --profile "$prof") >"$log" 2>&1; then
      echo "HARNESS-ERROR: cargo build --profile $prof failed (log: $log)" >&2
      tail -n 40 "$log" >&2
      return 2
    fi
  done
  echo "$now" > "$stamp"
  return 0
}

# Where the harness looks for the repository (the path dependency in sim/Cargo.toml).
repo_path() { sed -n 's/^ckc-rs *= *{ *path *= *"\([^"]*\)".*/\1/p' "$SIM/Cargo.toml" | head -n1; }

# Does the source mention atomics at all? (Only then is there anything for a thread scheduler to
# interleave. Test modules and comments are included on purpose: a phase run in vain is harmless.)
has_atomics() {
  local r; r="$(repo_path)"
  grep -rqE 'sync::atomic|sync::\{[^}]*atomic|Atomic(U|I)[0-9a-z]+|AtomicBool|AtomicPtr' "$r/src" 2>/dev/null
}

# Shadow build for the concurrent phase (DESIGN 10.13): a copy of the repository in which
# core::sync::atomic is shuttle::sync::atomic, and the simulator built against it with --features conc.
CONC_SKIP_REASON=""
conc_paths() { CONC="$SIM/target/conc-$1"; CONCBIN="$CONC/sim/target/release/ckc-sim"; CONCDBG="$CONC/sim/target/concdbg/ckc-sim"; }
conc_build() {
  local r; r="$(repo_path)"
  CONC_SKIP_REASON=""
  mkdir -p "$CONC/ckc-rs" "$CONC/sim/.cargo" || { CONC_SKIP_REASON="cannot create $CONC"; return 1; }
  rsync -a --delete --exclude target --exclude .git "$r"/ "$CONC/ckc-rs/" || { CONC_SKIP_REASON="rsync failed"; return 1; }
  find "$CONC/ckc-rs" -type f -exec touch {} +   # rsync keeps time stamps; cargo must see the copy as new
  # Two layers put the crate's atomics behind shuttle's scheduler.
  # (1) A facade crate that is `core` with `sync::atomic` and `hint::spin_loop` replaced by shuttle's is
  #     brought in under the name `core` (`extern crate corefacade as core;`), so that EVERY path form
  #     resolves there: `core::sync::atomic::X`, `use core::{a, sync::atomic::{…}}`, `use core::sync as s`.
  #     For that the shadow is an ordinary std crate (its own `no_std` attribute is dropped; shuttle
  #     needs std anyway).
  # (2) The textual rewrite stays for what the facade cannot reach: `std::sync::atomic` in test code.
  mkdir -p "$CONC/corefacade/src"
  cat > "$CONC/corefacade/Cargo.toml" <<'TOML'
[package]
name = "corefacade"
version = "0.1.0"
edition = "2021"
publish = false
[dependencies]
shuttle = "0.9.3"
TOML
  cat > "$CONC/corefacade/src/lib.rs" <<'RS'
//! `core`, except that `core::sync::atomic` and `core::hint::spin_loop` are shuttle's.
#![no_std]
pub use core::*;
pub mod sync {
    pub use shuttle::sync::atomic;
}
pub mod hint {
    pub use core::hint::*;
    pub use shuttle::hint::spin_loop;
}
RS
  local lib="$CONC/ckc-rs/src/lib.rs"
  sed -i '/^#!\[cfg_attr(not(test), no_std)\]/d; /^#!\[no_std\]/d' "$lib"
  # the extern crate item goes after the last inner attribute of the crate root
  local last; last="$(grep -n '^#!\[' "$lib" | tail -n1 | cut -d: -f1)"; last="${last:-0}"
  if [ "$last" -gt 0 ]; then sed -i "${last}a extern crate corefacade as core;" "$lib"; else sed -i '1i extern crate corefacade as core;' "$lib"; fi
  find "$CONC/ckc-rs/src" -name '*.rs' -print0 | xargs -0 sed -i -E 's/\bstd::sync::atomic\b/shuttle::sync::atomic/g; s/\bstd::hint::spin_loop\b/shuttle::hint::spin_loop/g'
  # anything that cannot be put behind the scheduler makes the phase meaningless or unsound: skip it, and say so
  if grep -rnE 'cast::<Atomic|as \*(const|mut) Atomic|transmute[^;]*Atomic|Atomic[A-Za-z0-9]+::from_ptr|\.as_ptr\(\)' "$CONC/ckc-rs/src" >/dev/null 2>&1; then
    CONC_SKIP_REASON="the source reaches atomics through raw pointers or casts, which shuttle's atomics cannot model"; return 1
  fi
  # dependencies added to a fresh copy of the manifest every time (the copy above restored the original)
  sed -i 's/^\[dependencies\]$/[dependencies]\nshuttle = "0.9.3"\ncorefacade = { path = "..\/corefacade" }/' "$CONC/ckc-rs/Cargo.toml"
  rsync -a --delete "$SIM/src/" "$CONC/sim/src/" || { CONC_SKIP_REASON="rsync failed"; return 1; }
  cat > "$CONC/sim/Cargo.toml" <<'TOML'
[package]
name = "ckc-sim"
version = "0.1.0"
edition = "2021"
publish = false
[workspace]
[features]
conc = []
[dependencies]
ckc-rs = { path = "../ckc-rs" }
shuttle = "0.9.3"
log = { version = "0.4", default-features = false }
[profile.release]
panic = "unwind"
debug = false
# the same sources with debug assertions and overflow checks on: code under cfg(debug_assertions) exists only here
[profile.concdbg]
inherits = "release"
debug-assertions = true
overflow-checks = true
TOML
  printf '[net]\noffline = true\n' > "$CONC/sim/.cargo/config.toml"
  cp "$SIM/conc.Cargo.lock" "$CONC/sim/Cargo.lock" || { CONC_SKIP_REASON="lock file missing"; return 1; }
  if ! (cd "$CONC/sim" && cargo build --offline --quiet --release --features conc && cargo build --offline --quiet --profile concdbg --features conc) >"$SIM/target/conc-build-$$.log" 2>&1; then
    CONC_SKIP_REASON="the shadow build with shuttle atomics failed (an atomic API shuttle does not provide?): $(grep -m1 -E '^error' "$SIM/target/conc-build-$$.log" | cut -c1-160)"
    return 1
  fi
  rm -f "$SIM/target/conc-build-$$.log"
  return 0
}

case "${1:-}" in
  setup)
    build || exit 2
    "$ROOT/scripts/premise_audit.sh" || true
    "$FAST" selftest || exit 2
    echo "ckc-sim built: $FAST $CHK"
    exit 0
    ;;
  replay)
    [ $# -ge 2 ] || { echo "usage: check.sh replay <file>" >&2; exit 2; }
    build || exit 2
    command -v jq >/dev/null 2>&1 || { grep -q '"mode": "shuttle-' "$2" && { echo "HARNESS-ERROR: jq is needed to replay a concurrent-phase file" >&2; exit 2; }; }
    mode="$(jq -r '.mode // "history"' "$2" 2>/dev/null)"
    if [ "$mode" = "shuttle-schedule" ] || [ "$mode" = "shuttle-lane" ]; then
      # a concurrent-phase replay: needs the shadow build of the current tree
      prop="$(jq -r '.property_id' "$2")"
      mkdir -p "$SIM/target/run"
      if ! has_atomics; then echo "REPLAY-RESULT no-violation (the current tree has no atomics: nothing to schedule)"; exit 0; fi
      conc_paths "$prop"
      exec 9>"$SIM/target/conc-$prop.lock"; flock 9 2>/dev/null || true
      conc_build || { echo "REPLAY-RESULT no-violation (the concurrent phase cannot be built for the current tree: $CONC_SKIP_REASON)"; exit 0; }
      want="$(jq -r '.expected.class' "$2")"
      out="$SIM/target/run/replay-out-$$.txt"
      [ "$(jq -r '.shadow_profile // "release"' "$2")" = concdbg ] && CONCBIN="$CONCDBG"
      if [ "$mode" = "shuttle-schedule" ]; then
        sched="$(jq -r '.schedule_file' "$2")"
        [ -f "$sched" ] || sched="$(dirname "$2")/$(basename "$sched")"
        [ -f "$sched" ] || { echo "HARNESS-ERROR: schedule file $(jq -r '.schedule_file' "$2") not found" >&2; exit 2; }
        $NOASLR "$CONCBIN" conc-replay --log-on-if-odd-lane 1 --lane "$(jq -r '.lane // 0' "$2")" --prop "$prop" --schedule "$sched" 2>/dev/null | tee "$out"
      else
        tmp="$SIM/target/run/replay-lane-$$.json"
        $NOASLR "$CONCBIN" conc-lane --log-on-if-odd-lane 1 --prop "$prop" --seed "$(jq -r '.verif_seed_str // (.verif_seed|tostring)' "$2")" --lane "$(jq -r '.lane' "$2")" --iterations "$(jq -r '.iterations' "$2")" --max-secs 100000 --dir "$SIM/target/run/replay-sched-$$" --out "$tmp" >/dev/null 2>&1
        if [ "$(jq -r '.failed' "$tmp" 2>/dev/null)" = true ] && [ "$(jq -r '.violation.class // empty' "$tmp")" != "" ]; then
          echo "REPLAY-RESULT class=$(jq -r '.violation.class' "$tmp") step=$(jq -r '.violation.step' "$tmp") digest=0x0" | tee "$out"; jq '.violation' "$tmp"
        else echo "REPLAY-RESULT no-violation" | tee "$out"; fi
        rm -rf "$tmp" "$SIM/target/run/replay-sched-$$"
      fi
      # the verdict is what the result line says, nothing else
      if grep -q "^REPLAY-RESULT class=" "$out"; then
        grep -q "^REPLAY-RESULT class=$want " "$out" && echo "reproduces the recorded violation exactly (class; schedule or lane re-run from its seed): yes"
        echo "VIOLATION property=$prop replay=$2"; rm -f "$out"; exit 1
      fi
      rm -f "$out"; exit 0
    fi
    if command -v jq >/dev/null 2>&1 && [ "$(jq -r '.profile // ""' "$2" 2>/dev/null)" = native ]; then
      # found under the target-cpu=native configuration: replay it there
      NAT="$SIM/target/native"
      if (cd "$SIM" && CARGO_TARGET_DIR="$NAT" RUSTFLAGS="-C target-cpu=native" cargo build --offline --quiet --profile simfast) >"$SIM/target/native-build.log" 2>&1; then
        $NOASLR "$NAT/simfast/ckc-sim" replay "$2"; exit $?
      fi
      echo "NOTE: cannot build the target-cpu=native configuration; replaying under the default one"
    fi
    $NOASLR "$FAST" replay "$2"
    rc=$?
    if [ $rc -le 1 ] && [ -x "$CHK" ]; then
      echo "--- same file under the overflow-checked profile:"
      $NOASLR "$CHK" replay "$2" --machine
      rc2=$?
      [ $rc2 -gt $rc ] && rc=$rc2
    fi
    exit $rc
    ;;
  C15|C19)
    prop="$1"; tier="${2:-${VERIF_TIER:-quick}}"
    case "$tier" in quick|thorough) ;; *) echo "usage: check.sh <C15|C19> <quick|thorough>" >&2; exit 2;; esac
    CKC_REPO="${CKC_REPO:-$(repo_path)}" "$ROOT/scripts/premise_audit.sh" || true
    build || exit 2
    concargs=()
    if has_atomics; then
      # the tree has process-wide atomics: put them behind shuttle's scheduler and explore callers' interleavings
      conc_paths "$prop"
      rep="$SIM/target/run/$prop-$tier-conc-$$.json"; mkdir -p "$SIM/target/run"; rm -f "$rep"
      exec 9>"$SIM/target/conc-$prop.lock"; flock 9 2>/dev/null || true   # one shadow per property at a time
      if conc_build; then
        iters=15000; secs=60; [ "$tier" = thorough ] && { iters=300000; secs=900; }
        "$CONCBIN" conc --prop "$prop" --root "$ROOT" --iterations "$iters" --max-secs "$secs" --alt-bin "$CONCDBG" --out "$rep" >/dev/null 2>"$SIM/target/conc-run-$$.log"
        if [ -f "$rep" ]; then concargs=(--conc-report "$rep"); else concargs=(--conc-skipped "the concurrent run ended without a report"); echo "NOTE: concurrent phase: the run ended without a report (log: $SIM/target/conc-run-$$.log)"; fi
      else
        echo "NOTE: concurrent phase skipped: $CONC_SKIP_REASON"
        concargs=(--conc-skipped "$CONC_SKIP_REASON")
      fi
      flock -u 9 2>/dev/null || true
    fi
    nativeargs=()
    if [ "$tier" = thorough ]; then
      # a third configuration: the same sources built for this machine's own instruction set
      # (-C target-cpu=native), so that code under cfg(target_feature = …) is not dead in every process
      NAT="$SIM/target/native"
      if (cd "$SIM" && CARGO_TARGET_DIR="$NAT" RUSTFLAGS="-C target-cpu=native" cargo build --offline --quiet --profile simfast) >"$SIM/target/native-build.log" 2>&1; then
        nativeargs=(--third-bin "$NAT/simfast/ckc-sim")
      else
        echo "NOTE: the target-cpu=native configuration could not be built (log: $SIM/target/native-build.log); skipped"
      fi
    fi
    "$FAST" check --prop "$prop" --tier "$tier" --root "$ROOT" --other-bin "$CHK" "${concargs[@]}" "${nativeargs[@]}"
    rc=$?
    [ -n "${rep:-}" ] && rm -f "$rep"
    exit $rc
    ;;
  *)
    echo "usage: check.sh <C15|C19> <quick|thorough> | replay <file> | setup" >&2
    exit 2
    ;;
esac
